#!/venv/bin/python
"""Entry point: run_check.py <Cnn> [--tier quick|thorough] [--replay file]

Exit 0: property held on everything explored (known findings excepted).
Exit 1: at least one line "VIOLATION property=<id> replay=<path>" was printed.
Exit 2: the harness itself failed (never reported as a pass).
"""
import argparse
import importlib
import json
import os
import sys
import traceback

HERE = os.path.dirname(os.path.abspath(__file__))
sys.path.insert(0, HERE)


def main():
    ap = argparse.ArgumentParser()
    ap.add_argument("prop")
    ap.add_argument("--tier", default=os.environ.get("VERIF_TIER", "quick"),
                    choices=["quick", "thorough"])
    ap.add_argument("--replay", default=None)
    args = ap.parse_args()
    prop = args.prop.upper()
    try:
        seed = int(os.environ.get("VERIF_SEED", "0"))
    except ValueError:
        seed = 0

    # Deterministic str hashing for every process of the run (set order in the code under test).
    if os.environ.get("PYTHONHASHSEED") != "0":
        os.environ["PYTHONHASHSEED"] = "0"
        os.execv(sys.executable, [sys.executable] + sys.argv)

    from mc import core

    ctx = core.Ctx(prop, args.tier, seed)
    # OSACA looks for models in ~/.osaca/data first and caches in ~/.osaca/cache: give it a
    # scratch HOME so that the checks never write below /repo and models can be staged.
    os.environ["HOME"] = ctx.home
    os.environ.pop("OSACA_VERIF", None)
    rc = 2
    try:
        mod = importlib.import_module("mc.checks." + prop.lower())
        if args.replay:
            with open(args.replay) as f:
                payload = json.load(f)
            rc = mod.replay(ctx, payload)
        else:
            res = mod.run(ctx)
            rc = core.finish(ctx, res, level=getattr(mod, "LEVEL", "model_checking"))
    except SystemExit:
        raise
    except BaseException:
        traceback.print_exc()
        print("HARNESS-ERROR property=%s (this is a failure of the check, not a verdict)" % prop)
        rc = 2
    finally:
        ctx.cleanup()
    sys.stdout.flush()
    sys.exit(rc)


if __name__ == "__main__":
    main()
