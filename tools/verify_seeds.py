#!/usr/bin/env python3
"""verify_seeds.py <out.json> <mutant dir> ... : for every mutant directory (patch.diff, demo.py,
meta.json) confirm in a scratch worktree of /repo HEAD that
  - the demo exits 0 on the unchanged tree,
  - the patch applies, the demo exits != 0 with it,
  - the 42 baseline tests still pass with it.
Worktrees are created under /tmp/wt_verify and removed afterwards."""
import concurrent.futures as cf
import json
import os
import subprocess
import sys

PY = "/venv/bin/python"
BASE = json.load(open("/root/.vp/BASELINE.json"))["stable_pass"]


def sh(cmd, cwd=None, timeout=3600):
    p = subprocess.run(cmd, shell=True, cwd=cwd, capture_output=True, text=True, timeout=timeout)
    return p.returncode, (p.stdout + p.stderr)[-3000:]


def junit_ok(path):
    import xml.etree.ElementTree as ET
    st = {}
    for tc in ET.parse(path).getroot().iter("testcase"):
        name = "%s::%s" % (tc.get("classname"), tc.get("name"))
        st[name] = not any(c.tag in ("failure", "error", "skipped") for c in tc)
    missing = [b for b in BASE if not st.get(b, False)]
    return missing


def verify(mdir):
    name = os.path.basename(mdir.rstrip("/"))
    wt = "/tmp/wt_verify/" + name
    res = {"mutant": name, "dir": mdir}
    sh("git -C /repo worktree remove --force %s" % wt)
    rc, out = sh("git -C /repo worktree add -q --detach %s HEAD" % wt)
    if rc:
        res["error"] = "worktree: " + out
        return res
    try:
        patch = os.path.join(mdir, "patch.diff")
        demo = os.path.join(mdir, "demo.py")
        env = "HOME=/tmp/wt_verify/home_%s PYTHONPATH=%s" % (name, wt)
        os.makedirs("/tmp/wt_verify/home_%s" % name, exist_ok=True)
        rc, out = sh("%s %s %s" % (env, PY, demo), cwd=wt, timeout=1800)
        res["demo_clean_exit"] = rc
        rc, out = sh("git apply --check %s" % patch, cwd=wt)
        res["applies_to_head"] = rc == 0
        if rc:
            res["apply_error"] = out[-300:]
            return res
        sh("git apply %s" % patch, cwd=wt)
        rc, out = sh("%s %s %s" % (env, PY, demo), cwd=wt, timeout=1800)
        res["demo_mutant_exit"] = rc
        res["demo_mutant_tail"] = out[-400:]
        junit = "/tmp/wt_verify/%s.xml" % name
        rc, out = sh("%s %s -m pytest -q -p no:cacheprovider --timeout=900 "
                     "--continue-on-collection-errors --junitxml=%s" % (env, PY, junit), cwd=wt,
                     timeout=3000)
        res["pytest_tail"] = out.strip().splitlines()[-1] if out.strip() else ""
        try:
            res["baseline_not_passing"] = junit_ok(junit)
        except Exception as e:
            res["baseline_not_passing"] = ["junit unreadable: %s" % e]
    finally:
        sh("git -C /repo worktree remove --force %s" % wt)
        sh("rm -rf /tmp/wt_verify/home_%s" % name)
    return res


def main():
    out, dirs = sys.argv[1], sys.argv[2:]
    os.makedirs("/tmp/wt_verify", exist_ok=True)
    results = []
    with cf.ThreadPoolExecutor(max_workers=3) as ex:
        for r in ex.map(verify, dirs):
            results.append(r)
            print(json.dumps({k: v for k, v in r.items() if k not in ("demo_mutant_tail",)}))
            sys.stdout.flush()
            json.dump(results, open(out, "w"), indent=1)


if __name__ == "__main__":
    main()
