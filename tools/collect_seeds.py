#!/usr/bin/env python3
"""collect_seeds.py <verify.json> ...: copy every verified seeded change into
/verif/seeded/<name>/ (patch.diff, demo.py, meta.json) and (re)write seeded/INDEX.md.
A change is kept only if the demo passes on the unchanged tree, fails with the change, and the
42 baseline tests still pass with it (as established by tools/verify_seeds.py)."""
import glob
import json
import os
import shutil
import subprocess
import sys

SEEDED = "/verif/seeded"


def main():
    head = subprocess.run("git -C /repo rev-parse --short HEAD", shell=True, capture_output=True,
                          text=True).stdout.strip()
    for vf in sys.argv[1:]:
        for r in json.load(open(vf)):
            ok = (r.get("demo_clean_exit") == 0 and r.get("applies_to_head") and
                  r.get("demo_mutant_exit") not in (0, None) and r.get("baseline_not_passing") == [])
            name = r["mutant"]
            if not ok:
                print("not kept:", name, {k: r.get(k) for k in ("demo_clean_exit", "applies_to_head",
                                                               "demo_mutant_exit")})
                continue
            dst = os.path.join(SEEDED, name)
            os.makedirs(dst, exist_ok=True)
            for f in ("patch.diff", "demo.py"):
                shutil.copyfile(os.path.join(r["dir"], f), os.path.join(dst, f))
            meta = {}
            mp = os.path.join(r["dir"], "meta.json")
            if os.path.exists(mp):
                try:
                    meta = json.load(open(mp))
                except Exception:
                    meta = {}
            old = {}
            if os.path.exists(os.path.join(dst, "meta.json")):
                old = json.load(open(os.path.join(dst, "meta.json")))
            meta_out = {
                "property": meta.get("property", name.split("_")[0]),
                "breaks": meta.get("what", ""),
                "needs_to_manifest": meta.get("needs_to_manifest", ""),
                "files_changed": meta.get("files_changed", []),
                "origin": "sub-agent that saw only the property text and a scratch worktree"
                          + ("; patch ported by hand to the tree after later fix: commits"
                             if name.endswith("p") else ""),
                "verified": {
                    "repo_head": head,
                    "how": "tools/verify_seeds.py in a scratch worktree of /repo HEAD",
                    "demo_exit_unchanged_tree": r["demo_clean_exit"],
                    "demo_exit_with_change": r["demo_mutant_exit"],
                    "baseline_tests": "all 42 stable_pass tests pass (%s)" % r.get("pytest_tail", ""),
                },
                "checks": old.get("checks") or [meta.get("property", name.split("_")[0])],
                "detected_by": old.get("detected_by", {}),
            }
            json.dump(meta_out, open(os.path.join(dst, "meta.json"), "w"), indent=1)
            print("kept:", name)
    write_index()


def write_index():
    rows = []
    for d in sorted(glob.glob(SEEDED + "/*/")):
        m = json.load(open(os.path.join(d, "meta.json")))
        name = os.path.basename(d.rstrip("/"))
        det = m.get("detected_by", {})
        dets = ", ".join("%s: %s" % (c, "VIOLATION" if v.get("exit") == 1 else
                                     ("silent" if v.get("exit") == 0 else "exit %s" % v.get("exit")))
                         for c, v in det.items()) or "(not run yet)"
        rows.append("| %s | %s | %s | %s |" % (name, m["property"],
                                               (m.get("needs_to_manifest") or "")[:160].replace("|", "/")
                                               .replace("\n", " "), dets))
    with open(os.path.join(SEEDED, "INDEX.md"), "w") as f:
        f.write("# Seeded property-breaking changes\n\n"
                "Each directory holds `patch.diff` (against /repo), `demo.py` (exits 0 on the "
                "unchanged tree, non-zero with the change) and `meta.json`. All keep the 42 "
                "baseline tests green. `detected_by` is filled by `tools/run_seeds.py` (quick tier).\n\n"
                "| change | property | needs to manifest | quick-tier result |\n|---|---|---|---|\n")
        f.write("\n".join(rows) + "\n")


if __name__ == "__main__":
    main()
