#!/usr/bin/env python3
"""run_seeds.py <out.json> [<seed dir> ...]: apply every seeded change to /repo in turn, run the
quick tier of the checks named in its meta.json ("checks", default: the property's own check),
undo the change, and record which check reported it.  Default dirs: /verif/seeded/*/ ."""
import glob
import json
import os
import subprocess
import sys
import tempfile


def sh(cmd, **kw):
    return subprocess.run(cmd, shell=True, capture_output=True, text=True, **kw)


def main():
    out = sys.argv[1]
    dirs = [os.path.abspath(x) for x in sys.argv[2:]] or sorted(glob.glob("/verif/seeded/*/"))
    results = {}
    if os.path.exists(out):
        results = json.load(open(out))
    assert sh("git -C /repo status --porcelain --untracked-files=no").stdout.strip() == "", \
        "/repo has uncommitted changes"
    for d in dirs:
        name = os.path.basename(d.rstrip("/"))
        meta = json.load(open(os.path.join(d, "meta.json")))
        prop = meta.get("property", name.split("_")[0])
        checks = meta.get("checks") or [prop]
        patch = os.path.join(d, "patch.diff")
        r = sh("git -C /repo apply %s" % patch)
        if r.returncode:
            results[name] = {"applies": False, "error": r.stderr[-300:]}
            continue
        rec = {"applies": True, "checks": {}}
        try:
            for c in checks:
                tmp = tempfile.mkdtemp(prefix="seedout_")
                env = dict(os.environ, VERIF_OUT=tmp)
                p = sh("timeout 1500 /venv/bin/python /verif/run_check.py %s --tier quick" % c,
                       env=env)
                lines = p.stdout.splitlines()
                first = ""
                for i, l in enumerate(lines):
                    if l.startswith("VIOLATION"):
                        first = lines[i + 1].strip()[:300] if i + 1 < len(lines) else ""
                        break
                rec["checks"][c] = {"exit": p.returncode,
                                    "violation_lines": sum(1 for l in lines
                                                           if l.startswith("VIOLATION")),
                                    "first": first}
                sh("rm -rf %s" % tmp)
        finally:
            sh("git -C /repo checkout -- .")
        results[name] = rec
        print(name, {c: v["exit"] for c, v in rec["checks"].items()})
        sys.stdout.flush()
        json.dump(results, open(out, "w"), indent=1)


if __name__ == "__main__":
    main()
