#!/usr/bin/env python3
"""merge_detect.py <detect.json>: store the results of tools/run_seeds.py in seeded/*/meta.json
and rewrite seeded/INDEX.md"""
import json, os, sys
sys.path.insert(0, os.path.dirname(os.path.abspath(__file__)))
import collect_seeds
det = json.load(open(sys.argv[1]))
for name, rec in det.items():
    mp = os.path.join(collect_seeds.SEEDED, name, "meta.json")
    if not os.path.exists(mp) or not rec.get("applies"):
        continue
    m = json.load(open(mp))
    m.setdefault("detected_by", {}).update(rec["checks"])
    m["what_was_run"] = ("tools/run_seeds.py: git -C /repo apply patch.diff; quick tier of %s; "
                         "git -C /repo checkout -- ." % ", ".join(rec["checks"]))
    json.dump(m, open(mp, "w"), indent=1)
collect_seeds.write_index()
print(open(os.path.join(collect_seeds.SEEDED, "INDEX.md")).read()[-1500:])
