#!/bin/bash
# usage: tools/mutant.sh <patch.diff> <Cnn> [<Cnn> ...]   (evidence/replays go to a scratch dir)
patch=$1; shift
out=$(mktemp -d /tmp/mutout.XXXX)
git -C /repo apply "$patch" || { echo "PATCH DOES NOT APPLY"; exit 3; }
for c in "$@"; do
  VERIF_OUT=$out timeout ${MUT_TIMEOUT:-900} /venv/bin/python /verif/run_check.py $c --tier ${TIER:-quick} > $out/$c.log 2>&1
  rc=$?
  echo "== $c rc=$rc $(grep -c '^VIOLATION' $out/$c.log) violation lines; $(grep -m1 -A1 '^VIOLATION' $out/$c.log | tail -1 | cut -c1-220)"
  tail -1 $out/$c.log | cut -c1-200
done
git -C /repo checkout -- .
git -C /repo status --short | grep -v '^??' 
rm -rf $out
