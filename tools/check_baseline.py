#!/usr/bin/env python3
"""check_baseline.py <junit.xml>: do all 42 stable_pass tests of BASELINE.json pass?"""
import json, sys, xml.etree.ElementTree as ET
base = json.load(open('/root/.vp/BASELINE.json'))['stable_pass']
t = ET.parse(sys.argv[1]).getroot()
st = {}
for tc in t.iter('testcase'):
    name = "%s::%s" % (tc.get('classname'), tc.get('name'))
    bad = any(c.tag in ('failure', 'error', 'skipped') for c in tc)
    st[name] = not bad
missing = [b for b in base if not st.get(b.replace('::', '::', 1), False) and not st.get(b, False)]
# junit classname is like tests.test_x.TestX ; BASELINE uses tests.test_x.TestX::test
print("passed in junit: %d ; baseline %d ; baseline tests not passing: %d" % (sum(st.values()), len(base), len(missing)))
for m in missing: print("  NOT PASSING:", m)
sys.exit(1 if missing else 0)
