#!/bin/bash
# usage: tools/run_all.sh [tier] ; prints one line per check
tier=${1:-quick}
for i in 01 02 03 04 05 06 07 08 09 10 11 12 13 14 15 16 17 18 19 20; do
  s=$(date +%s)
  out=$(/venv/bin/python /verif/run_check.py C$i --tier $tier 2>&1); rc=$?
  e=$(date +%s)
  echo "C$i rc=$rc $((e-s))s viol=$(echo "$out" | grep -c '^VIOLATION') known=$(echo "$out" | grep -c '^KNOWN-FINDING') :: $(echo "$out" | tail -1 | cut -c1-140)"
done
