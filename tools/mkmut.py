#!/usr/bin/env python3
"""mkmut.py <repo-relative file> <old> <new> <out.diff>: make a one-replacement patch."""
import subprocess, sys
f, old, new, out = sys.argv[1:5]
p = "/repo/" + f
s = open(p).read()
assert s.count(old) >= 1, "old text not found"
open(p, "w").write(s.replace(old, new, 1))
d = subprocess.run(["git", "-C", "/repo", "diff"], capture_output=True, text=True).stdout
subprocess.run(["git", "-C", "/repo", "checkout", "--", f], check=True)
open(out, "w").write(d)
print(out, len(d.splitlines()), "lines")
