"""C01 part (b): the port pressure of real instructions on the shipped models.

For every shipped model the instruction forms are grouped by their micro-op list as written in
the *plain YAML* (cycles and port sets); one instruction is synthesised per distinct list (every
entry in the thorough tier) with the machinery of C07/C15.  All kernels of length 1 and all
ordered pairs over (at most PAIR_CAP of) these representatives are analysed by the real parser
and ArchSemantics at the three stages (uniform, optimised once, optimised twice); the pressure of
each line must be a feasible split (mc/ref/ports.py) of the micro-op list of the entry the
reference matcher of C07 selects for it in file order, and the kernel totals must be the column
sums."""
import itertools
import traceback

from mc import core, drive
from mc.ref import match as RM
from mc.ref import ports as R
from mc.checks import c07, c08_real, c15

_MODELS = {}
_PLAIN = {}
_REPS = {}
PAIR_CAP = 40
MAX_PAIR_CYCLES = 60.0
STAGES = ("uniform", "opt1", "opt2")


def _norm(pp):
    return tuple((float(c), tuple(sorted(str(p) for p in list(ps)))) for c, ps in pp)


def representatives(arch, every_entry):
    """[(text, entry index)] - one synthesised instruction per distinct micro-op list (or per
    entry); entries that are incomplete, malformed or cannot be synthesised are skipped"""
    plain = _PLAIN[arch]
    isa = plain["isa"].lower()
    ports = [str(p) for p in plain["ports"]]
    seen = set()
    reps = []
    skipped = 0
    for j, e in enumerate(plain.get("instruction_forms") or []):
        pp = e.get("port_pressure")
        if pp is None or isinstance(pp, dict) or e.get("throughput") is None:
            skipped += 1
            continue
        if c15.uops_problem(pp, ports):
            skipped += 1
            continue
        shape = _norm(pp)
        if not every_entry and shape in seen:
            continue
        pats = e.get("operands") or []
        if not all(isinstance(p, dict) and "class" in p for p in pats):
            skipped += 1
            continue
        optexts = [RM.synth(isa, p, k, 0) for k, p in enumerate(pats)]
        if any(t is None for t in optexts):
            skipped += 1
            continue
        mn = c07.names_of(e)[0]
        text = c07.instr_text(isa, mn, optexts)
        f = c07._parse(isa, text)
        if f is None or f.mnemonic.lower() != mn.lower():
            skipped += 1
            continue
        kinds = [RM.kind_of(isa, o) for o in f.operands]
        if any(k is None for k in kinds):
            skipped += 1
            continue
        # the entry the reference selects for this text (file order); its list is the expectation
        sel = c08_real.find_entry(plain["instruction_forms"], isa, f.mnemonic, kinds)
        if not isinstance(sel, dict) or sel.get("port_pressure") is None or \
                isinstance(sel["port_pressure"], dict) or \
                c15.uops_problem(sel["port_pressure"], ports):
            skipped += 1
            continue
        seen.add(shape)
        reps.append((text, _norm(sel["port_pressure"]), float(sel.get("throughput") or 0)))
    return reps, skipped


def composed_representatives(arch):
    """memory-composed real x86 instructions (register form + load/store rows of the model, the
    vocabulary and the composition reference of C08): text, micro-ops with the multiplier of the
    register type applied, throughput of the register form"""
    from mc.ref import compose as RC
    plain = _PLAIN[arch]
    if plain["isa"].lower() != "x86":
        return []
    ports = [str(p) for p in plain["ports"]]
    entries = plain["instruction_forms"]
    parser = drive.get_parser("x86")
    out = []
    for text_t, mpos, ld, st in c08_real.vocab():
        for mt in ("(%rax)", "16(%rax,%rbx)"):
            text = text_t.replace("{M}", mt)
            ins = parser.parse_file(text + "\n")[0]
            kinds = [RM.kind_of("x86", o) for o in ins.operands]
            if c08_real.find_entry(entries, "x86", ins.mnemonic, kinds) is not None:
                continue   # own memory entry (or not determined)
            from mc.checks import isa_audit
            if isa_audit.db_status(_MODELS[arch][1], ins)[0] != "db":
                continue   # load/store role decided by the default rule (C03/C08 own that)
            reg = c08_real.find_entry(entries, "x86", ins.mnemonic, kinds, wildcard_pos=mpos)
            if not isinstance(reg, dict) or reg.get("port_pressure") is None or \
                    isinstance(reg["port_pressure"], dict) or reg.get("throughput") is None or \
                    c15.uops_problem(reg["port_pressure"], ports):
                continue
            rt = str(reg["operands"][mpos].get("name")).lower()
            if rt not in ("gpr", "xmm", "ymm", "zmm"):
                continue
            uops = [(float(c), tuple(sorted(str(p) for p in list(ps))))
                    for c, ps in reg["port_pressure"]]
            ok = True
            for does, pick, key in ((ld, RC.pick_load, "load_throughput_multiplier"),
                                    (st, RC.pick_store, "store_throughput_multiplier")):
                if not does:
                    continue
                rows = pick("x86", plain, c08_real.MEMS[mt], rt)
                if rows is None:
                    ok = False
                    break
                mult = (plain.get(key) or {}).get(rt, 1.0) if key in plain else 1.0
                uops += [(float(c) * float(mult), tuple(sorted(str(p) for p in list(ps))))
                         for c, ps in rows]
            if ok:
                out.append((text, tuple(uops), float(reg["throughput"])))
    return out


def check_kernel(item):
    arch, idxs = item
    out = {"n": 0, "bad": [], "outcome": None}
    try:
        mm, sem = _MODELS[arch]
        plain = _PLAIN[arch]
        isa = plain["isa"].lower()
        ports = [str(p) for p in plain["ports"]]
        reps = _REPS[arch]
        texts = [reps[i][0] for i in idxs]
        parser = drive.get_parser(isa)
        kernel = parser.parse_file("\n".join(texts) + "\n")
        sem.add_semantics(kernel)
        obs = []
        for stage in STAGES:
            if stage != "uniform":
                sem.assign_optimal_throughput(kernel)
            passes = STAGES.index(stage)
            for i, ins in zip(idxs, kernel):
                uops = [(c, frozenset(ps)) for c, ps in reps[i][1]]
                tol = 1e-9 if passes == 0 else 0.01 * max(1, len(uops)) * passes + 1e-6
                if "tp_unknown" in ins.flags:
                    out["bad"].append((stage, "unknown", "%r is flagged unknown although the model "
                                       "has an entry for it" % reps[i][0]))
                    continue
                dev, what = R.feasibility_deviation(list(ins.port_pressure), uops, ports)
                out["n"] += 1
                if dev > tol:
                    shape = _shape(uops)
                    out["bad"].append((stage, _clause(what) + ":" + shape,
                                       "%r (micro-ops %r): %s" % (reps[i][0], reps[i][1], what)))
            tp_sum = sem.get_throughput_sum(kernel)
            rows = [k.port_pressure for k in kernel if k.throughput != 0.0]
            if rows:
                exp = [sum(col) for col in zip(*rows)]
                out["n"] += 1
                if len(tp_sum) != len(exp) or any(abs(x - y) > 0.005 + 1e-9
                                                  for x, y in zip(tp_sum, exp)):
                    out["bad"].append((stage, "totals", "kernel totals %r != column sums %r"
                                       % (tp_sum, [round(e, 4) for e in exp])))
            obs.append(tuple(tp_sum))
        out["outcome"] = tuple(obs)
    except Exception:
        out["bad"].append(("exception", "exception", traceback.format_exc()[-1200:]))
    return item, out


def _shape(uops):
    sets = [u[1] for u in uops]
    kinds = set()
    for x, y in itertools.combinations(sets, 2):
        if x == y:
            kinds.add("equal")
        elif x < y or y < x:
            kinds.add("nested")
        elif x & y:
            kinds.add("overlap")
        else:
            kinds.add("disjoint")
    return "+".join(sorted(kinds)) or "single"


def _clause(what):
    if what.startswith("negative"):
        return "negative"
    if "no micro-op may use" in what:
        return "support"
    if what.startswith("sum of"):
        return "sum"
    return "hall"


def _load(ctx, archs):
    drive.stage_and_parse(ctx, archs + ["isa/x86", "isa/aarch64"])
    from osaca import utils
    for a in archs:
        mm = drive.MachineModel(arch=a)
        _MODELS[a] = (mm, drive.ArchSemantics(mm))
        _PLAIN[a] = c07.load_plain(utils.find_datafile(a + ".yml"))


def run_part(ctx):
    res = core.Result()
    archs = ["zen1", "zen3", "icx", "snb", "tx2", "a64fx"] if not ctx.thorough else drive.shipped_archs()
    _load(ctx, archs)
    items = []
    info = {}
    for a in archs:
        reps, skipped = representatives(a, every_entry=ctx.thorough)
        comp = composed_representatives(a)
        reps = reps + comp
        _REPS[a] = reps
        n = len(reps)
        items += [(a, (i,)) for i in range(n)]
        # pairs over one representative per distinct micro-op list
        first = {}
        for i, (_, shape, _) in enumerate(reps):
            first.setdefault(shape, i)
        # the balancing loop moves 0.01 cycles per step: lists with hundreds of cycles (wbinvd:
        # 10^5) take minutes per pair; they are covered as single-line kernels only
        red = [i for i in sorted(first.values()) if sum(c for c, _ in reps[i][1]) <= MAX_PAIR_CYCLES]
        if len(red) > PAIR_CAP:
            # keep the lists with most micro-ops and the widest port sets, deterministic
            red = sorted(red, key=lambda i: (-len(reps[i][1]),
                                             -max([len(ps) for _, ps in reps[i][1]] or [0]), i))[:PAIR_CAP]
        items += [(a, t) for t in itertools.product(red, repeat=2)]
        info[a] = {"instructions": n, "memory_composed_instructions": len(comp),
                   "distinct_micro_op_lists": len(first),
                   "entries_skipped": skipped, "pair_alphabet": len(red),
                   "pair_alphabet_max_cycles": MAX_PAIR_CYCLES}
    out = core.pmap(check_kernel, core.rotate(items, ctx.seed))
    for (arch, idxs), o in out:
        res.states += 1
        res.traces += 1
        res.transitions += o["n"]
        res.outcomes.add((arch, o["outcome"]))
        if len(idxs) > 1:
            res.nontrivial += 1
        texts = [_REPS[arch][i][0] for i in idxs]
        for stage, clause, what in o["bad"]:
            cl, _, shape = clause.partition(":")
            res.violations.append(core.Violation(
                {"part": "shipped-models", "stage": stage, "clause": cl, "shape": shape or "n/a",
                 "unequal_overlapping_port_sets": ("nested" in shape or "overlap" in shape)},
                "[%s] kernel %r stage %s: %s" % (arch, texts, stage, what),
                {"part": "shipped-models", "arch": arch, "kernel": texts, "stage": stage,
                 "what": what}))
    res.extra["shipped_models"] = info
    if out:
        (arch, idxs), o = out[len(out) // 2]
        res.add_sample({"shipped_model": arch, "kernel": [_REPS[arch][i][0] for i in idxs],
                        "totals_per_stage": o["outcome"]})
    return res


def replay(ctx, payload):
    r = payload["replay"]
    _load(ctx, [r["arch"]])
    reps, _ = representatives(r["arch"], every_entry=True)
    reps = reps + composed_representatives(r["arch"])
    _REPS[r["arch"]] = reps
    texts = [t for t, _, _ in reps]
    try:
        idxs = tuple(texts.index(t) for t in r["kernel"])
    except ValueError:
        print("kernel %r cannot be rebuilt from the current model file" % (r["kernel"],))
        return 1
    _, o = check_kernel((r["arch"], idxs))
    for b in o["bad"]:
        print(b)
    return 1 if o["bad"] else 0


# ------------------------------------------------------------------------------------------
# C02 on the same kernels: bottleneck after balancing vs. uniform and vs. the exact optimum

STEP = 0.01


def c02_kernel(item):
    arch, idxs = item
    out = {"bad": [], "obs": None, "n": 0}
    try:
        mm, sem = _MODELS[arch]
        plain = _PLAIN[arch]
        isa = plain["isa"].lower()
        ports = [str(p) for p in plain["ports"]]
        reps = _REPS[arch]
        parser = drive.get_parser(isa)
        kernel = parser.parse_file("\n".join(reps[i][0] for i in idxs) + "\n")
        sem.add_semantics(kernel)
        specs = [[(c, frozenset(ps)) for c, ps in reps[i][1]]
                 for i, ins in zip(idxs, kernel) if ins.throughput != 0.0]
        used = sorted(frozenset().union(*[u[1] for s_ in specs for u in s_])) if specs else []
        opt = R.exact_optimum(specs, used) if used else 0.0
        tps = []
        t = sem.get_throughput_sum(kernel)
        tps.append(max(t) if t else 0.0)
        for _ in range(2):
            sem.assign_optimal_throughput(kernel)
            t = sem.get_throughput_sum(kernel)
            tps.append(max(t) if t else 0.0)
        uni, o1, o2 = tps
        multi = any(len(s_) > 1 and ("nested" in _shape(s_) or "overlap" in _shape(s_))
                    for s_ in specs)
        for st, v in (("opt1", o1), ("opt2", o2)):
            out["n"] += 2
            if v > uni + 1e-9:
                out["bad"].append((st, "worse_than_uniform", "bottleneck %.4f after %s > uniform "
                                   "%.4f" % (v, st, uni), multi))
            if v < opt - STEP - 1e-6:
                # residues of up to one step per balanced instruction are told apart from
                # larger undercuts (see known finding D28)
                small = v >= opt - STEP * len(specs) - 1e-6
                out["bad"].append((st, "undercut-residue" if small else "undercut",
                                   "bottleneck %.4f after %s undercuts the exact "
                                   "optimum %.4f by more than the 0.01 step" % (v, st, opt), multi))
        out["obs"] = (round(uni, 4), round(o1, 4), round(o2, 4), round(opt, 4))
    except Exception:
        out["bad"].append(("exception", "exception", traceback.format_exc()[-1200:], False))
    return item, out


def run_part_c02(ctx):
    res = core.Result()
    archs = ["zen1", "zen3", "icx", "snb", "tx2", "a64fx"] if not ctx.thorough else drive.shipped_archs()
    _load(ctx, archs)
    items = []
    for a in archs:
        reps, _ = representatives(a, every_entry=False)
        ncomp0 = len(reps)
        reps = reps + composed_representatives(a)
        _REPS[a] = reps
        red = [i for i in range(ncomp0) if sum(c for c, _ in reps[i][1]) <= MAX_PAIR_CYCLES]
        if len(red) > PAIR_CAP:
            red = sorted(red, key=lambda i: (-len(reps[i][1]),
                                             -max([len(ps) for _, ps in reps[i][1]] or [0]),
                                             i))[:PAIR_CAP]
        # memory-composed instructions: distinct micro-op lists only, paired with each other
        cfirst = {}
        for i in range(ncomp0, len(reps)):
            cfirst.setdefault(reps[i][1], i)
        cred = sorted(cfirst.values())[:12]
        red = red + cred
        items += [(a, (i,)) for i in red]
        items += [(a, t) for t in itertools.product(red[:len(red) - len(cred)], repeat=2)]
        items += [(a, t) for t in itertools.product(cred, repeat=2)]
        # two composed instructions next to two plain ones (e.g. loads with an entry of their
        # own): the data ports become the bottleneck
        plain_red = red[:len(red) - len(cred)]
        items += [(a, (c, c, r, r)) for c in cred for r in plain_red]
    out = core.pmap(c02_kernel, core.rotate(items, ctx.seed))
    worst = (0.0, None)
    for (arch, idxs), o in out:
        res.states += 1
        res.traces += 1
        res.transitions += o["n"]
        texts = [_REPS[arch][i][0] for i in idxs]
        if o["obs"]:
            res.outcomes.add((arch, o["obs"]))
            uni, o1, o2, opt = o["obs"]
            if o2 != uni:
                res.nontrivial += 1
            if o2 - opt > worst[0]:
                worst = (round(o2 - opt, 4), [arch] + texts)
        for st, clause, what, multi in o["bad"]:
            res.violations.append(core.Violation(
                {"family": "shipped", "stage": st, "clause": clause,
                 "unequal_overlapping_port_sets": bool(multi), "alternatives": False},
                "[%s] kernel %r: %s" % (arch, texts, what),
                {"part": "shipped-models", "arch": arch, "kernel": texts, "what": what}))
    res.extra["shipped_models_kernels"] = len(items)
    res.extra["shipped_models_worst_gap_over_optimum"] = worst
    return res


def replay_c02(ctx, payload):
    r = payload["replay"]
    _load(ctx, [r["arch"]])
    reps, _ = representatives(r["arch"], every_entry=False)
    reps = reps + composed_representatives(r["arch"])
    _REPS[r["arch"]] = reps
    texts = [t for t, _, _ in reps]
    idxs = tuple(texts.index(t) for t in r["kernel"])
    _, o = c02_kernel((r["arch"], idxs))
    print("uniform/opt1/opt2/exact optimum:", o["obs"])
    for b in o["bad"]:
        print(b[:3])
    return 1 if o["bad"] else 0
