"""C08 on shipped models (filled in later)."""
from mc import core


def run_part(ctx):
    return core.Result()


def replay(ctx, payload):
    return 0
