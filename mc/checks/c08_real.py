"""C08 part (b): memory-composed real x86 instructions on shipped models.

For each vocabulary instruction the expectation is computed from the *plain YAML* of the model
(register-form entry found with the reference matcher of C07, load/store rows and multipliers
with mc/ref/compose.py); instructions for which the model has an own memory entry are analysed
directly and are not part of this check."""
import itertools
import traceback

from mc import core, drive
from mc.ref import compose as RC
from mc.ref import match as RM
from mc.checks import c07

_MODELS = {}
_PLAIN = {}

MEMS = {
    "(%rax)": dict(base="gpr", index=None, offset=None, scale=1),
    "16(%rax)": dict(base="gpr", index=None, offset="imd", scale=1),
    "(%rax,%rbx,8)": dict(base="gpr", index="gpr", offset=None, scale=8),
    "16(%rax,%rbx)": dict(base="gpr", index="gpr", offset="imd", scale=1),
}


def vocab():
    """(text template with {M}, memory position, does_load, does_store)"""
    V = []
    for mn in ("vaddpd", "vmulpd", "vsubpd", "vfmadd231pd", "vmaxpd"):
        for regs in (("%xmm1", "%xmm2"), ("%ymm1", "%ymm2")):
            V.append(("%s {M}, %s, %s" % (mn, regs[0], regs[1]), 0, True, False))
    for mn in ("addq", "subq", "andq", "orq", "xorq", "imulq", "cmpq"):
        V.append(("%s {M}, %%rcx" % mn, 0, True, False))
    for mn in ("addq", "subq", "andq", "orq", "xorq"):
        V.append(("%s %%rcx, {M}" % mn, 1, True, True))      # read-modify-write
    for mn in ("incq", "decq", "negq", "notq"):
        V.append(("%s {M}" % mn, 0, True, True))
    V.append(("vaddsd {M}, %xmm1, %xmm2", 0, True, False))
    V.append(("vmulss {M}, %xmm1, %xmm2", 0, True, False))
    V.append(("vsqrtpd {M}, %ymm2", 0, True, False))
    V.append(("popcntq {M}, %rcx", 0, True, False))
    return V


def find_entry(entries, isa, mnemonic, kinds, wildcard_pos=None):
    """first entry in file order (after the documented suffix fall-back) the reference accepts;
    with wildcard_pos the operand at that position matches any *register* pattern"""
    names = [mnemonic]
    if isa == "x86" and mnemonic[-1] in "bswlqt":
        names.append(mnemonic[:-1])
    for name in names:
        for e in entries:
            if name.upper() not in [n.upper() for n in c07.names_of(e)]:
                continue
            pats = e.get("operands") or []
            if len(pats) != len(kinds):
                continue
            rs = []
            for k, (p, kd) in enumerate(zip(pats, kinds)):
                if k == wildcard_pos:
                    rs.append(p.get("class") == "register")
                else:
                    rs.append(RM.match(isa, p, kd))
            if any(r is False for r in rs):
                continue
            if any(r is None for r in rs):
                return "unspecified"
            return e
    return None


def _ls(ld, st):
    return {(True, True): "read and written", (True, False): "only read",
            (False, True): "only written", (False, False): "neither read nor written"}[(ld, st)]


def case(item):
    arch, vi, mt = item
    text_t, mpos, ld, st = _VOC[vi]
    text = text_t.replace("{M}", mt)
    out = {"bad": [], "n": 0, "status": None}
    try:
        plain = _PLAIN[arch]
        mm, sem = _MODELS[arch]
        parser = drive.get_parser("x86")
        kernel = parser.parse_file(text + "\n")
        ins = kernel[0]
        kinds = [RM.kind_of("x86", o) for o in ins.operands]
        entries = plain["instruction_forms"]
        own = find_entry(entries, "x86", ins.mnemonic, kinds)
        if own == "unspecified" or own is not None:
            out["status"] = "own-entry"
            return item, out
        regform = find_entry(entries, "x86", ins.mnemonic, kinds, wildcard_pos=mpos)
        if isinstance(regform, dict) and regform.get("port_pressure") is not None and \
                not isinstance(regform["port_pressure"], dict):
            from mc.checks import c15 as _c15
            if _c15.uops_problem(regform["port_pressure"], [str(p) for p in plain["ports"]]):
                out["status"] = "malformed-entry"   # C15 owns the well-formedness of entries
                return item, out
        sem.add_semantics(kernel)
        unknown = "tp_unknown" in ins.flags
        if regform == "unspecified":
            out["status"] = "unspecified"
            return item, out
        if regform is None:
            out["status"] = "unknown"
            out["n"] = 1
            if not unknown:
                out["bad"].append(("flag", "%r: neither form is in the model but it is not flagged "
                                   "unknown" % text))
            return item, out
        if regform.get("throughput") is None or regform.get("latency") is None or \
                regform.get("port_pressure") is None or isinstance(regform["port_pressure"], dict):
            out["status"] = "incomplete-entry"
            return item, out
        from mc.checks import c15
        if c15.uops_problem(regform["port_pressure"], [str(p) for p in plain["ports"]]):
            out["status"] = "malformed-entry"   # C15 owns the well-formedness of entries
            return item, out
        # read-modify-write needs the ISA database to say so; otherwise the default rule applies
        reg_type = str(regform["operands"][mpos].get("name")).lower()
        if reg_type not in ("gpr", "xmm", "ymm", "zmm"):
            out["status"] = "unspecified"
            return item, out
        sd = ins.semantic_operands
        is_ld = any(type(o).__name__ == "MemoryOperand" for o in sd["source"] + sd["src_dst"])
        is_st = any(type(o).__name__ == "MemoryOperand" for o in sd["destination"] + sd["src_dst"])
        if (is_ld, is_st) != (ld, st):
            # without an ISA entry the default rule decides whether the operand is loaded or
            # stored (C03 owns that); with one, the memory operand of these instructions has the
            # architectural role, otherwise the composition lacks the load or the store part
            from mc.checks import isa_audit
            if isa_audit.db_status(sem, ins)[0] == "db":
                out["n"] = 1
                out["status"] = "composed"
                out["bad"].append(("roles", "%r: the memory operand is %s but is analysed as %s"
                                   % (text, _ls(ld, st), _ls(is_ld, is_st))))
                return item, out
            out["status"] = "roles-differ"
            ld_, st_ = is_ld, is_st
        else:
            ld_, st_ = ld, st
        model = dict(plain)
        exp = RC.compose("x86", model, regform, MEMS[mt], reg_type, ld_, st_)
        if exp is None:
            out["status"] = "unspecified"
            return item, out
        out["status"] = out["status"] or "composed"
        out["n"] = 4
        if unknown:
            out["bad"].append(("flag", "%r is flagged unknown although its register form (%s) is in "
                               "the model" % (text, c07.names_of(regform))))
            return item, out
        if any(abs(a - b) > 1e-9 for a, b in zip(ins.port_pressure, exp["pressure"])):
            out["bad"].append(("pressure", "%r: pressure %r, expected %r (register form + load/store "
                               "rows for %s)" % (text, [round(x, 4) for x in ins.port_pressure],
                                                 [round(x, 4) for x in exp["pressure"]], reg_type)))
        if abs(float(ins.latency) - exp["latency"]) > 1e-9:
            out["bad"].append(("latency", "%r: latency %r, expected %r" % (text, ins.latency,
                                                                           exp["latency"])))
        if abs(float(ins.throughput) - exp["throughput"]) > 1e-9:
            out["bad"].append(("throughput", "%r: throughput %r, expected %r"
                               % (text, ins.throughput, exp["throughput"])))
    except Exception:
        out["bad"].append(("exception", traceback.format_exc()[-1200:]))
    return item, out


_VOC = []


def run_part(ctx):
    res = core.Result()
    _VOC[:] = vocab()
    archs = ["zen1", "zen3"] if not ctx.thorough else drive.shipped_archs("x86")
    drive.stage_and_parse(ctx, archs + ["isa/x86"])
    from osaca import utils
    for a in archs:
        mm = drive.MachineModel(arch=a)
        _MODELS[a] = (mm, drive.ArchSemantics(mm))
        _PLAIN[a] = c07.load_plain(utils.find_datafile(a + ".yml"))
    items = [(a, vi, mt) for a in archs for vi in range(len(_VOC)) for mt in MEMS]
    out = core.pmap(case, items)
    import collections
    st = collections.Counter()
    for (arch, vi, mt), o in out:
        res.states += 1
        res.traces += 1
        res.transitions += o["n"]
        st[o["status"]] += 1
        if o["status"] in ("composed", "roles-differ"):
            res.nontrivial += 1
        if o["status"] == "unspecified":
            res.unspecified += 1
        res.outcomes.add((arch, o["status"]))
        for kind, what in o["bad"]:
            res.violations.append(core.Violation(
                {"part": "shipped-models", "kind": kind, "arch": arch},
                "[%s] %s" % (arch, what),
                {"arch": arch, "vocab_index": vi, "mem": mt, "what": what}))
    res.extra["shipped_composition_status"] = dict(st)
    res.add_sample({"shipped_model_case": ["zen1", _VOC[0][0].replace("{M}", "(%rax)")]})
    return res


def replay(ctx, payload):
    r = payload["replay"]
    _VOC[:] = vocab()
    drive.stage_and_parse(ctx, [r["arch"], "isa/x86"])
    from osaca import utils
    mm = drive.MachineModel(arch=r["arch"])
    _MODELS[r["arch"]] = (mm, drive.ArchSemantics(mm))
    _PLAIN[r["arch"]] = c07.load_plain(utils.find_datafile(r["arch"] + ".yml"))
    _, o = case((r["arch"], r["vocab_index"], r["mem"]))
    for b in o["bad"]:
        print(b)
    return 1 if o["bad"] else 0
