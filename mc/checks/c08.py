"""C08 - memory-operand forms compose register-form data with load/store data."""
import copy
import itertools
import os
import traceback

from mc import core, drive, synth
from mc.ref import compose as RC

LEVEL = "model_checking"
_M = {}  # (isa, variant) -> dict(model=plain dict, mm, sem, instrs)
PORTS = ["A", "B", "C", "D"]


def _canon_uops(uops):
    return [[float(c), sorted(list(p))] for c, p in uops]


def build_model(isa, with_mult):
    R = (lambda k: synth.reg(isa, k))
    if isa == "x86":
        g, v, y = "gpr", "xmm", "ymm"
    else:
        g, v, y = "x", "d", "q"
    forms = [
        synth.form("rf", [R(v), R(v), R(v)], 3.0, 1.0, [[1, ["A", "B"]]]),
        synth.form("rg", [R(g), R(g)], 1.0, 0.5, [[1, ["A"]], [1, ["A", "B"]]]),
        synth.form("ry", [R(y), R(y)], 2.0, 1.0, [[2, ["B"]]]),
        # stem ends in a letter that is also a size suffix (like sub, imul, test, shl)
        synth.form("rsb", [R(g), R(g)], 2.0, 1.0, [[1, ["B"]]]),
        synth.form("st", [R(g), R(g)], 1.0, 1.0, [[1, ["B"]]]),
        synth.form("sf", [R(v), R(g)], 2.0, 1.0, [[1, ["A", "B"]]]),
        synth.form("rw", [R(g), R(g)], 1.0, 1.0, [[1, ["A"]]]),
        synth.form("own", [synth.mem("*", "*", "*", "*", **({"pre_indexed": "*", "post_indexed": "*"}
                                                       if isa == "aarch64" else {})), R(g)]
                   if isa == "x86" else
                   [R(g), synth.mem("*", "*", "*", "*", pre_indexed="*", post_indexed="*")],
                   7.0, 1.0, [[1, ["C"]]]),
    ]
    regforms = {f["name"]: f for f in forms}
    b = "gpr" if isa == "x86" else "x"
    lt = [
        {"base": b, "index": None, "offset": "*", "scale": 1, "dst": g, "port_pressure": [[1, ["C"]]]},
        {"base": b, "index": None, "offset": "*", "scale": 1, "dst": v,
         "port_pressure": [[1, ["C"]], [1, ["D"]]]},
        {"base": b, "index": b, "offset": "*", "scale": "*", "dst": g,
         "port_pressure": [[2, ["C", "D"]]]},
        {"base": b, "index": b, "offset": "*", "scale": "*", "dst": v, "port_pressure": [[1, ["D"]]]},
    ]
    if isa == "x86":
        # a row for immediate displacements only, in front of the wildcard row: a symbolic
        # displacement (sym(%rax)) has the same shape but must fall through to the next row
        lt.insert(0, {"base": b, "index": None, "offset": "imd", "scale": 1, "dst": g,
                      "port_pressure": [[3, ["D"]]]})
    st = [
        {"base": b, "index": None, "offset": "*", "scale": 1, "src": g, "port_pressure": [[1, ["D"]]]},
        {"base": b, "index": None, "offset": "*", "scale": 1, "src": v,
         "port_pressure": [[1, ["C"]], [1, ["D"]]]},
    ]
    extra = {}
    if with_mult == "load-only":
        # only one of the two tables: the other kind of access is not scaled at all
        extra["load_throughput_multiplier"] = {g: 1.5, v: 2.0, y: 2.5}
    elif with_mult == "store-only":
        extra["store_throughput_multiplier"] = {g: 3.0, v: 1.5, y: 2.0}
    elif with_mult:
        # pairwise different, none equal to 1 where loads and stores of one type meet (a
        # read-modify-write scales its load part with the load and its store part with the store
        # multiplier of the register type)
        extra["load_throughput_multiplier"] = {g: 1.5, v: 2.0, y: 2.5}
        extra["store_throughput_multiplier"] = {g: 3.0, v: 1.0, y: 2.0}
    model = synth.machine_model(
        isa, PORTS, forms, arch_code="SYN", load_latency={g: 4.0, v: 5.0, y: 6.0},
        load_throughput=lt, load_throughput_default=[[1, ["C", "D"]]],
        store_throughput=st, store_throughput_default=[[1, ["C"]]], **extra)
    if isa == "aarch64":
        model["isa"] = "AArch64"   # spelled as in the shipped model files
        for row in lt + st:
            row["pre_indexed"] = False
            row["post_indexed"] = False
    # ISA db: rg = [source, source+destination] (x86 order) / [source+destination, source]
    if isa == "x86":
        isa_forms = [{"name": "rg", "operands": [dict(R(g), source=True, destination=False),
                                                 dict(R(g), source=True, destination=True)]}]
    else:
        mp = synth.mem("*", "*", "*", "*", pre_indexed="*", post_indexed="*")
        isa_forms = [
            {"name": "rg", "operands": [dict(R(g), source=True, destination=True),
                                        dict(R(g), source=True, destination=False)]},
            {"name": "st", "operands": [dict(R(g), source=True, destination=False),
                                        dict(mp, source=False, destination=True)]},
            {"name": "sf", "operands": [dict(R(v), source=True, destination=False),
                                        dict(mp, source=False, destination=True)]},
            {"name": "rw", "operands": [dict(R(g), source=True, destination=False),
                                        dict(mp, source=True, destination=True)]},
        ]
    return model, regforms, isa_forms


def instructions(isa):
    """descriptors: text, regform, position/role, mem kind, reg_type, load?, store?, expect"""
    out = []
    if isa == "x86":
        mems = {
            "(%rax)": dict(base="gpr", index=None, offset=None, scale=1),
            "8(%rax)": dict(base="gpr", index=None, offset="imd", scale=1),
            "(%rax,%rbx,8)": dict(base="gpr", index="gpr", offset=None, scale=8),
            "8(%rax,%rbx)": dict(base="gpr", index="gpr", offset="imd", scale=1),
            "8(,%rbx,8)": dict(base=None, index="gpr", offset="imd", scale=8),
            "sym(%rax)": dict(base="gpr", index=None, offset="id", scale=1),
        }
        for mt, mk in mems.items():
            out.append(dict(text="rf %s, %%xmm1, %%xmm2" % mt, rf="rf", mem=mk, rt="xmm", ld=1, st=0))
            out.append(dict(text="rf %%xmm1, %s, %%xmm2" % mt, rf="rf", mem=mk, rt="xmm", ld=1, st=0))
            out.append(dict(text="rf %%xmm0, %%xmm1, %s" % mt, rf="rf", mem=mk, rt="xmm", ld=0, st=1))
            out.append(dict(text="rg %s, %%rcx" % mt, rf="rg", mem=mk, rt="gpr", ld=1, st=0))
            out.append(dict(text="rg %%rcx, %s" % mt, rf="rg", mem=mk, rt="gpr", ld=1, st=1))
            out.append(dict(text="rgq %s, %%rcx" % mt, rf="rg", mem=mk, rt="gpr", ld=1, st=0))
            out.append(dict(text="rsbq %s, %%rcx" % mt, rf="rsb", mem=mk, rt="gpr", ld=1, st=0))
            out.append(dict(text="rsbl %%ecx, %s" % mt, rf="rsb", mem=mk, rt="gpr", ld=0, st=1))
            out.append(dict(text="ry %s, %%ymm1" % mt, rf="ry", mem=mk, rt="ymm", ld=1, st=0))
            out.append(dict(text="zz %s, %%rcx" % mt, rf=None, mem=mk, rt=None, ld=1, st=0))
            out.append(dict(text="own %s, %%rcx" % mt, rf="own", mem=mk, rt=None, ld=1, st=0,
                            own=True))
        out.append(dict(text="rg %rcx, %rdx", rf="rg", mem=None, rt=None, ld=0, st=0, plain=True))
        out.append(dict(text="zz %rcx, %rdx", rf=None, mem=None, rt=None, ld=0, st=0))
    else:
        mems = {
            "[x2]": dict(base="x", index=None, offset=None, scale=1),
            "[x2, #8]": dict(base="x", index=None, offset="imd", scale=1),
            "[x2, x3]": dict(base="x", index="x", offset=None, scale=1),
            "[x2, x3, lsl #3]": dict(base="x", index="x", offset=None, scale=8),
        }
        for mt, mk in mems.items():
            out.append(dict(text="rf d1, d2, %s" % mt, rf="rf", mem=mk, rt="d", ld=1, st=0))
            out.append(dict(text="rg x1, %s" % mt, rf="rg", mem=mk, rt="x", ld=1, st=0))
            out.append(dict(text="rg.ne x1, %s" % mt, rf="rg", mem=mk, rt="x", ld=1, st=0))
            out.append(dict(text="ry q1, %s" % mt, rf="ry", mem=mk, rt="q", ld=1, st=0))
            out.append(dict(text="zz x1, %s" % mt, rf=None, mem=mk, rt=None, ld=1, st=0))
            out.append(dict(text="own x1, %s" % mt, rf="own", mem=mk, rt=None, ld=1, st=0, own=True))
            # stores / read-modify-write: roles from ISA entries, memory operand last
            out.append(dict(text="st x1, %s" % mt, rf="st", mem=mk, rt="x", ld=0, st=1))
            out.append(dict(text="sf d1, %s" % mt, rf="sf", mem=mk, rt="x", ld=0, st=1))
            out.append(dict(text="rw x1, %s" % mt, rf="rw", mem=mk, rt="x", ld=1, st=1))
        out.append(dict(text="rg x1, x2", rf="rg", mem=None, rt=None, ld=0, st=0, plain=True))
        out.append(dict(text="zz x1, x2", rf=None, mem=None, rt=None, ld=0, st=0))
    return out


def _setup(ctx):
    d = ctx.sub("c08")
    for isa in ("x86", "aarch64"):
        for mult in (False, True, "load-only", "store-only"):
            model, regforms, isa_forms = build_model(isa, mult)
            tag = "%s_%s" % (isa, {False: "plain", True: "mult"}.get(mult, mult))
            path = synth.write(os.path.join(d, "mm_%s.yml" % tag), model)
            isap = synth.write(os.path.join(d, "isa_%s.yml" % tag), synth.isa_db(isa, isa_forms))
            mm = drive.MachineModel(path_to_yaml=path)
            _M[(isa, mult)] = dict(model=model, regforms=regforms, mm=mm,
                                   sem=drive.ArchSemantics(mm, path_to_yaml=isap),
                                   instrs=instructions(isa))


def expected(isa, M, d):
    """('unknown',) | ('unspecified',) | ('direct', form) | ('composed', dict)"""
    model = M["model"]
    if d["rf"] is None:
        return ("unknown",)
    rf = M["regforms"][d["rf"]]
    if d.get("own") or d.get("plain"):
        return ("direct", rf)
    e = RC.compose(isa, model, rf, d["mem"], d["rt"], d["ld"], d["st"])
    if e is None:
        return ("unspecified",)
    return ("composed", e)


def check_instr(isa, M, d, ins):
    probs = []
    exp = expected(isa, M, d)
    unknown = "tp_unknown" in ins.flags
    if exp[0] == "unspecified":
        return probs, 0, 1
    if exp[0] == "unknown":
        if not unknown or "lt_unknown" not in ins.flags:
            probs.append(("unknown", "%r has neither form but is not flagged unknown" % d["text"]))
        if any(abs(x) > 1e-12 for x in ins.port_pressure) or ins.latency != 0 or \
                ins.throughput != 0:
            probs.append(("unknown", "%r unknown but pressure %r latency %r"
                          % (d["text"], ins.port_pressure, ins.latency)))
        return probs, 2, 0
    if unknown:
        probs.append(("flag", "%r is flagged unknown although its register form %r is in the model"
                      % (d["text"], d["rf"])))
        return probs, 1, 0
    if exp[0] == "direct":
        rf = exp[1]
        if float(ins.latency) != float(rf["latency"]):
            probs.append(("direct", "%r: latency %r, entry says %r" % (d["text"], ins.latency,
                                                                      rf["latency"])))
        return probs, 1, 0
    e = exp[1]
    n = 0
    n += 1
    if _canon_uops(ins.port_uops) != _canon_uops(e["uops"]):
        probs.append(("uops", "%r: micro-ops %r, expected register form ++ load ++ store = %r"
                      % (d["text"], list(ins.port_uops), e["uops"])))
    n += 1
    if any(abs(a - b) > 1e-9 for a, b in zip(ins.port_pressure, e["pressure"])) or \
            len(ins.port_pressure) != len(e["pressure"]):
        probs.append(("pressure", "%r: pressure %r, expected %r" % (d["text"],
                                                                   list(ins.port_pressure),
                                                                   e["pressure"])))
    n += 1
    if abs(float(ins.latency) - e["latency"]) > 1e-9:
        probs.append(("latency", "%r: latency %r, expected register form + load latency = %r"
                      % (d["text"], ins.latency, e["latency"])))
    n += 1
    if abs(float(ins.throughput) - e["throughput"]) > 1e-9:
        probs.append(("throughput", "%r: throughput %r, expected max(register form, busiest data "
                      "port) = %r" % (d["text"], ins.throughput, e["throughput"])))
    n += 1
    if ins.latency_wo_load is None or abs(float(ins.latency_wo_load) - e["latency_wo_load"]) > 1e-9:
        probs.append(("latency", "%r: latency without load %r, expected %r"
                      % (d["text"], ins.latency_wo_load, e["latency_wo_load"])))
    return probs, n, 0


def _tables(mm):
    import pickle
    return pickle.dumps((mm._data["load_throughput"], mm._data["store_throughput"],
                         mm._data["load_throughput_default"], mm._data["store_throughput_default"],
                         [(k, [(f.latency, f.throughput, f.port_pressure) for f in v])
                          for k, v in sorted(mm._data["instruction_forms_dict"].items())]))


def _work(item):
    isa, mult, idxs = item
    M = _M[(isa, mult)]
    ds = [M["instrs"][i] for i in idxs]
    out = {"bad": [], "n": 0, "unspec": 0, "sig": None}
    try:
        before = _tables(M["mm"])
        parser = drive.get_parser(isa)
        kernel = parser.parse_file("\n".join(d["text"] for d in ds) + "\n")
        M["sem"].add_semantics(kernel)
        sig = []
        for d, ins in zip(ds, kernel):
            probs, n, u = check_instr(isa, M, d, ins)
            out["n"] += n
            out["unspec"] += u
            out["bad"] += probs
            sig.append((round(float(ins.latency), 3), round(float(ins.throughput), 3)))
        out["n"] += 1
        if _tables(M["mm"]) != before:
            out["bad"].append(("model-mutated", "analysing %r changed the machine model's own "
                               "tables/entries" % [d["text"] for d in ds]))
            # restore so that one defect does not cascade through the rest of the enumeration
            import pickle
            t = pickle.loads(before)
            (M["mm"]._data["load_throughput"], M["mm"]._data["store_throughput"],
             M["mm"]._data["load_throughput_default"],
             M["mm"]._data["store_throughput_default"]) = t[:4]
        out["sig"] = tuple(sig)
    except Exception:
        out["bad"].append(("exception", traceback.format_exc()[-1500:]))
    return item, out


def run(ctx):
    res = core.Result()
    _setup(ctx)
    items = []
    for (isa, mult), M in _M.items():
        n = len(M["instrs"])
        items += [(isa, mult, (i,)) for i in range(n)]
        items += [(isa, mult, t) for t in itertools.product(range(n), repeat=2)]
        if ctx.thorough:
            red = list(range(0, n, 3))
            items += [(isa, mult, t) for t in itertools.product(red, repeat=3)]
    # fresh model objects per item group are not needed: the tables are compared before/after and
    # every worker process starts from the parent's pristine copy
    out = core.pmap(_work, core.rotate(items, ctx.seed), chunk=25)
    for (isa, mult, idxs), o in out:
        res.states += 1
        res.traces += 1
        res.transitions += o["n"]
        res.unspecified += o["unspec"]
        res.outcomes.add(o["sig"])
        if len(idxs) > 1:
            res.nontrivial += 1
        texts = [_M[(isa, mult)]["instrs"][i]["text"] for i in idxs]
        for kind, what in o["bad"]:
            res.violations.append(core.Violation(
                {"kind": kind, "isa": isa, "multiplier": mult},
                "[%s mult=%s] kernel %r: %s" % (isa, mult, texts, what),
                {"isa": isa, "mult": mult, "idxs": list(idxs), "kernel": texts, "what": what}))
    for (isa, mult, idxs), o in out[:2] + out[len(out) // 2:len(out) // 2 + 2]:
        res.add_sample({"isa": isa, "multiplier": mult,
                        "kernel": [_M[(isa, mult)]["instrs"][i]["text"] for i in idxs],
                        "(latency, throughput)": o["sig"]})
    from mc.checks import c08_real
    res.merge(c08_real.run_part(ctx))
    res.evaluations = res.states
    res.rule = ("synthetic models of both ISAs (register forms with 1-2 micro-ops; load/store tables "
                "per addressing shape and register type, defaults, with and without multipliers, "
                "load latency per type) x instructions with the memory operand in every position "
                "and role (load, store, read-modify-write via ISA entry), with/without mnemonic "
                "suffix, unknown mnemonic, own memory entry; all kernels of length 1-2 (thorough 3) "
                "so that every instruction follows every other one; model tables compared before/"
                "after; non-trivial = kernels of length >= 2")
    res.assumptions = ["reference mc/ref/compose.py", "no typed row for the register type although "
                       "rows for the addressing shape exist: unspecified (counted)"]
    return res


def replay(ctx, payload):
    _setup(ctx)
    r = payload["replay"]
    if "idxs" not in r:
        from mc.checks import c08_real
        return c08_real.replay(ctx, payload)
    _, o = _work((r["isa"], r["mult"], tuple(r["idxs"])))
    for b in o["bad"]:
        print(b)
    return 1 if o["bad"] else 0
