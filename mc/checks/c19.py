"""C19 - LCD timeout yields sound partial results and leaves no workers behind."""
import os
import subprocess
import sys
import time
import traceback

from mc import core, drive, dgfam, sched
from mc.ref import report as RP
from mc.checks import c05, c16

LEVEL = "model_checking"
SLEEP = 0.2
# single-process search: after the (virtual) clock has passed the deadline the search has to stop
# at its next look at the clock; a few more queries are tolerated (e.g. one per enclosing loop)
MAX_QUERIES_PAST_DEADLINE = 3


TICK = 0.3   # single-process search: virtual seconds per enumerated dependency path


def run_under(prefix, texts, cpu, timeout, parallel=True, clock_jump=None, sigterm_ignored=False):
    import osaca.semantics.kernel_dg as kd
    fam = c05._FAM["x86"]
    mm, sem = fam.load()
    parser, kernel = dgfam.parsed_kernel("x86", texts, via_parse_file=True)
    sem.add_semantics(kernel)
    w = sched.World(prefix, cpu, max_idle_wakes=None if (timeout != -1 and timeout < 5) else 1,
                    clock_jump=clock_jump, sigterm_ignored=sigterm_ignored,
                    tick_per_path=0.0 if parallel else TICK)
    undo = sched.install(w, kd)
    old_thr = kd.KernelDG.INSTRUCTION_THRESHOLD
    kd.KernelDG.INSTRUCTION_THRESHOLD = 1 if parallel else 10 ** 6
    err = None
    g = None
    t0 = w.now
    try:
        g = kd.KernelDG(kernel, parser, mm, sem, timeout=timeout)
    except sched.ReplayDivergence:
        raise
    except Exception:
        err = traceback.format_exc()[-1200:]
    finally:
        kd.KernelDG.INSTRUCTION_THRESHOLD = old_thr
        elapsed = w.now - t0
        killed_unfinished = [p.idx for p in w.procs if p.state == "killed"]
        left = w.finish()
        undo()
    return w, g, kernel, err, left, elapsed, killed_unfinished


def explore_config(item):
    kname, cpu, timeout, bound, first, parallel = item
    # a kernel name ending in '!t' = the calling process ignores SIGTERM (inherited by workers)
    sigterm_ignored = kname.endswith("!t")
    kname_ = kname[:-2] if sigterm_ignored else kname
    texts = c16.KERNELS[kname_]
    ref, ref_rep = c16.sequential(texts)
    ref_set = {(k, m, l) for k, m, l, r in ref}
    ref_r = RP.parse(ref_rep)
    n = 0
    bad = []
    outcomes = set()
    maxlen = 0

    def run_one(prefix):
        w, g, kernel, err, left, elapsed, killed = run_under(
            prefix, texts, cpu, timeout, parallel,
            clock_jump=(None if parallel else (abs(timeout) + 1000.0)),
            sigterm_ignored=sigterm_ignored)
        obs = None
        if g is not None:
            rep = drive.strip_report(c05._FE["x86"].full_analysis(
                kernel, g, ignore_unknown=True, lcd_warning=g.timed_out))
            obs = (c16.lcd_obs(g), g.timed_out, rep)
        return w.choices, w.noptions, (obs, err, left, elapsed, killed, w.jumped,
                                       w.queries_after_jump)

    for choices, (obs, err, left, elapsed, killed, jumped, queries) in sched.explore(
            run_one, bound=bound, first_prefixes=first):
        n += 1
        maxlen = max(maxlen, len(choices))
        if err:
            bad.append(("exception", choices, err))
            continue
        lcd, timed_out, rep = obs
        got = {(k, m, l) for k, m, l, r in lcd}
        outcomes.add((frozenset(got), timed_out))
        if not got <= ref_set:
            bad.append(("unsound", choices, "reported cycles %r are not a subset of the untimed "
                        "result" % sorted(got - ref_set)))
        complete = got == ref_set
        if parallel:
            cut = bool(killed)
        else:
            cut = not complete
        if timed_out != cut:
            bad.append(("flag", choices, "timed_out=%s but the search was %scut short (killed "
                        "workers %r, complete=%s)" % (timed_out, "" if cut else "not ", killed,
                                                     complete)))
        if not timed_out and not complete:
            bad.append(("silent-loss", choices, "result incomplete (%d of %d cycles) without the "
                        "time-out flag" % (len(got), len(ref_set))))
        if timeout == -1 or timeout >= 5:
            if timed_out or not complete:
                bad.append(("spurious-timeout", choices, "timeout %s cannot strike but timed_out=%s "
                            "complete=%s" % (timeout, timed_out, complete)))
        elif parallel and elapsed > timeout + SLEEP + 1e-9:
            bad.append(("late", choices, "returned after %.2f virtual s, timeout %.2f + one poll "
                        "interval allowed" % (elapsed, timeout)))
        elif not parallel and elapsed > timeout + TICK + 1e-9 and not jumped:
            bad.append(("late", choices, "single-process search returned after %.2f virtual s "
                        "(%.1f s per enumerated path), timeout %.2f + one path allowed"
                        % (elapsed, TICK, timeout)))
        elif not parallel and jumped and queries > MAX_QUERIES_PAST_DEADLINE:
            bad.append(("late", choices, "the clock passed the deadline (jump by timeout + 1000 s) "
                        "but the search went on and asked for the time %d more times (a search "
                        "that stops at its next check needs at most %d)"
                        % (queries, MAX_QUERIES_PAST_DEADLINE)))
        r = RP.parse(rep)
        if r.lcd_warning != timed_out:
            bad.append(("warning", choices, "time-out warning shown=%s, timed_out=%s"
                        % (r.lcd_warning, timed_out)))
        # throughput and critical path unaffected
        if [row["cells"] for row in r.rows] != [row["cells"] for row in ref_r.rows] or \
                (r.summary and ref_r.summary and (r.summary["cells"], r.summary["cp"]) !=
                 (ref_r.summary["cells"], ref_r.summary["cp"])):
            bad.append(("tp-cp", choices, "port pressure / critical path differ from the untimed "
                        "analysis"))
        for l in left:
            bad.append(("leftover", choices, l))
    return item, (n, bad[:30], len(outcomes), maxlen)


def first_level(kname, cpu, timeout, depth, parallel=True):
    sigterm_ignored = kname.endswith("!t")
    texts = c16.KERNELS[kname[:-2] if sigterm_ignored else kname]
    frontier = [[]]
    for _ in range(depth):
        nxt = []
        for pre in frontier:
            w = run_under(pre, texts, cpu, timeout, parallel,
                          clock_jump=(None if parallel else abs(timeout) + 1000.0),
                          sigterm_ignored=sigterm_ignored)[0]
            if len(w.choices) <= len(pre):
                nxt.append(pre)
                continue
            for alt in range(w.noptions[len(pre)]):
                nxt.append(pre + [alt])
        frontier = nxt
    return frontier


# ------------------------------------------------------------------------------------------
# real time: a kernel with Fibonacci-many dependency paths must return within the timeout

REAL_SCRIPT = r'''
import sys, os, time, json
os.environ["HOME"] = %(home)r
sys.path.insert(0, %(verif)r)
from mc import drive
import osaca.semantics.kernel_dg as kd
n = %(n)d
lines = ["vaddpd %%%%xmm%%d, %%%%xmm%%d, %%%%xmm%%d" %% ((i - 1) %% n, (i - 2) %% n, i) for i in range(n)]
if %(pad)d:
    lines += ["addq $1, %%r9"] * %(pad)d  # (no formatting applied to this literal)
mm = drive.MachineModel(arch="zen1")
sem = drive.ArchSemantics(mm)
parser = drive.get_parser("x86")
kernel = parser.parse_file("\n".join(lines) + "\n")
sem.add_semantics(kernel)
import multiprocessing as mp
t = time.time()
g = kd.KernelDG(kernel, parser, mm, sem, timeout=%(timeout)d)
dt = time.time() - t
kids = len(mp.active_children())
# every reported cycle must be a genuine path of the graph with the right latency
ok = True
for v in g.loopcarried_deps.values():
    if abs(sum(l for _, l in v["dependencies"]) - v["latency"]) > 1e-9:
        ok = False
print("REAL" + json.dumps({"dt": dt, "timed_out": g.timed_out, "cycles": len(g.loopcarried_deps),
                           "children_alive": kids, "latencies_ok": ok}))
'''


def real_run(ctx, n, pad, timeout, horizon):
    code = REAL_SCRIPT % {"verif": core.VERIF, "home": ctx.home, "n": n, "pad": pad,
                          "timeout": timeout}
    env = dict(os.environ)
    env["PYTHONHASHSEED"] = "0"
    t = time.time()
    try:
        p = subprocess.run([sys.executable, "-c", code], capture_output=True, text=True, env=env,
                           timeout=horizon)
    except subprocess.TimeoutExpired:
        return None, "analysis with --lcd-timeout %d did not return within %d s" % (timeout,
                                                                                     horizon)
    import json
    for line in p.stdout.splitlines():
        if line.startswith("REAL"):
            return json.loads(line[4:]), None
    return None, "run failed: " + p.stderr[-800:]


def run(ctx):
    res = core.Result()
    c05.setup(ctx, "c19")
    for texts in c16.KERNELS.values():
        dgfam.warm_parse_cache("x86", [t for t in texts if t])
    plan = [("k4", 2, 0, None, True), ("k4", 2, 0.2, None, True), ("k4", 2, 0.4, None, True),
            ("k5", 2, 0.2, None, True), ("k6", 2, 0.4, 3, True), ("k4", 3, 0.2, 3, True),
            ("k5", 3, 0.4, 2, True), ("k4", 2, 50, 2, True), ("k4", 2, -1, None, True),
            # single-process search: the clock may jump past the timeout at any query
            ("k4", 1, 1, None, False), ("k5", 1, 1, None, False), ("k6", 1, 2, None, False),
            ("k6", 1, -1, None, False), ("k4", 1, 0, None, False), ("k5", 1, 0, None, False),
            # kernels 1500 lines into a file; a calling process that ignores SIGTERM
            ("k4hi", 2, 0.2, None, True), ("k6hi", 3, -1, 2, True), ("k4hi", 1, 1, None, False),
            ("k4!t", 2, 0.2, None, True), ("k5!t", 3, 0.4, 2, True)]
    if ctx.thorough:
        plan += [("k6", 2, 0.4, None, True), ("k5", 3, 0.4, 4, True), ("k6", 3, 0.2, 3, True),
                 ("k4", 3, 0.4, None, True), ("k6", 5, 0.2, 2, True)]
    items = []
    for kname, cpu, timeout, bound, parallel in plan:
        for pre in first_level(kname, cpu, timeout, 2 if parallel else 1, parallel):
            items.append((kname, cpu, timeout, bound, [pre], parallel))
    out = core.pmap(explore_config, core.rotate(items, ctx.seed), chunk=1)
    per_cfg = {}
    for (kname, cpu, timeout, bound, first, parallel), (n, bad, nout, maxlen) in out:
        res.states += n
        res.traces += n
        res.transitions += n * maxlen
        res.nontrivial += n
        key = (kname, cpu, timeout, bound, parallel)
        per_cfg[key] = per_cfg.get(key, 0) + n
        res.outcomes.add((kname, cpu, timeout, nout))
        for kind, choices, what in bad:
            res.violations.append(core.Violation(
                {"kind": kind, "part": "virtual", "parallel": parallel},
                "[%s workers=%d timeout=%s %s] schedule %r: %s"
                % (kname, cpu, timeout, "multi-process" if parallel else "single-process",
                   choices, what),
                {"part": "virtual", "kernel": kname, "cpu_count": cpu, "timeout": timeout,
                 "parallel": parallel, "schedule": choices, "what": what}))
    for k, n in sorted(per_cfg.items(), key=str):
        res.add_sample({"kernel": k[0], "cpu_count": k[1], "timeout": k[2],
                        "search": "multi-process" if k[4] else "single-process (clock jump)",
                        "deviation_bound": "complete" if k[3] is None else k[3],
                        "schedules": n}, cap=25)
    # real time (observed, not exhaustive): dense kernel below and above the 50-line threshold
    drive.stage_and_parse(ctx, ["zen1", "isa/x86"])
    for n_, pad, timeout in ((17, 0, 1), (17, 40, 1)):
        r, err = real_run(ctx, n_, pad, timeout, horizon=timeout + 45)
        res.traces += 1
        where = "single-process" if n_ + pad < 50 else "multi-process"
        if err:
            res.violations.append(core.Violation(
                {"kind": "real-late", "part": "real", "search": where},
                "[real %s, %d lines] %s" % (where, n_ + pad, err),
                {"part": "real", "n": n_, "pad": pad, "timeout": timeout}))
            continue
        res.extra["real_%s" % where] = r
        if r["dt"] > timeout + 25:
            res.violations.append(core.Violation(
                {"kind": "real-late", "part": "real", "search": where},
                "[real %s] returned after %.1f s with timeout %d" % (where, r["dt"], timeout),
                {"part": "real", "n": n_, "pad": pad, "timeout": timeout}))
        if r["children_alive"]:
            res.violations.append(core.Violation(
                {"kind": "real-leftover", "part": "real", "search": where},
                "[real %s] %d worker processes still alive" % (where, r["children_alive"]),
                {"part": "real", "n": n_, "pad": pad, "timeout": timeout}))
        if not r["latencies_ok"] or not r["timed_out"]:
            res.violations.append(core.Violation(
                {"kind": "real-result", "part": "real", "search": where},
                "[real %s] timed_out=%s latencies_ok=%s for a search that cannot finish in time"
                % (where, r["timed_out"], r["latencies_ok"]),
                {"part": "real", "n": n_, "pad": pad, "timeout": timeout}))
    res.evaluations = res.traces
    res.rule = ("every schedule of (worker list extensions x poller wake-ups x kill points incl. "
                "'pending extension already processed') of the real search under the virtual world "
                "for timeouts {0, 0.2, 0.4 virtual s, 50, -1}, 2-3 workers (complete for 2 workers, "
                "deviation bound 2-4 otherwise); single-process search: the clock jumps past the "
                "timeout at the k-th query for every k; oracle: reported cycles subset of the untimed "
                "result, flag/warning iff cut short, elapsed <= timeout + one poll interval, every "
                "worker dead and joined, throughput/CP unchanged; plus two observed real-time runs")
    res.assumptions = [
        "kill atomicity: a killed worker's pending list extension happened completely or not at all",
        "'returns within the timeout' is decided in virtual time; in real time it is only observed "
        "on two runs with generous margins"]
    return res


def replay(ctx, payload):
    r = payload["replay"]
    if r.get("part") != "virtual":
        res, err = real_run(ctx, r["n"], r["pad"], r["timeout"], r["timeout"] + 25)
        print(res, err)
        return 1 if err else 0
    c05.setup(ctx, "c19")
    item = (r["kernel"], r["cpu_count"], r["timeout"], 0, [r["schedule"]], r["parallel"])
    _, (n, bad, nout, maxlen) = explore_config(item)
    for b in bad:
        print(b)
    return 1 if bad else 0
