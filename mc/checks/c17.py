"""C17 - model caches are transparent, also after interrupted or racing writes."""
import collections
import glob
import hashlib
import itertools
import os
import pickle
import shutil
import traceback

from mc import core, drive, synth, coop, vfs

LEVEL = "model_checking"
KERNEL = "\n".join(["aa %rax, %rbx", "bb %rbx, %rcx", "aa (%rdx), %rcx", "zz %rcx, %rax",
                    "bb %rcx, %rcx"]) + "\n"
_G = {}
_LAST_FS = {}


# ------------------------------------------------------------------------------------------

def model_text(version):
    R = lambda k: synth.reg("x86", k)
    forms = [synth.form("aa", [R("gpr"), R("gpr")], 2.0 if version == "A" else 5.0, 1.0,
                        [[1, ["P0", "P1"]]]),
             synth.form("bb", [R("gpr"), R("gpr")], 3.0, 0.5, [[1, ["P1"]], [1, ["P0", "P1"]]]),
             synth.form(["cc", "dd"], [R("xmm"), R("xmm")], 1.0, 1.0, [[1, ["P0"]]])]
    mm = synth.machine_model("x86", ["P0", "P1", "P2"], forms, arch_code="SYN",
                             load_throughput_default=[[1, ["P2"]]],
                             store_throughput_default=[[1, ["P2"]]])
    return synth.dumps(mm)


def canon(o, depth=0):
    if isinstance(o, (str, int, float, bool, type(None))):
        return o
    if isinstance(o, dict):
        return ("dict", tuple(sorted(((str(k), canon(v, depth + 1)) for k, v in o.items()),
                                     key=lambda kv: kv[0])))
    if isinstance(o, (list, tuple)):
        return ("seq", tuple(canon(v, depth + 1) for v in o))
    if hasattr(o, "__dict__"):
        return (type(o).__name__, canon(vars(o), depth + 1))
    return repr(o)


def analyse(model_path, isa_path):
    """fresh MachineModel from model_path + one analysis -> (digest of model data, report)"""
    from osaca.frontend import Frontend
    mm = drive.MachineModel(path_to_yaml=model_path)
    sem = drive.ArchSemantics(mm, path_to_yaml=isa_path)
    parser = drive.get_parser("x86")
    kernel = parser.parse_file(KERNEL)
    sem.add_semantics(kernel)
    sem.assign_optimal_throughput(kernel)
    g = drive.KernelDG(kernel, parser, mm, sem)
    rep = Frontend(path_to_yaml=model_path).full_analysis(kernel, g, ignore_unknown=True)
    dig = hashlib.sha256(repr(canon(mm._data)).encode()).hexdigest()
    return dig, drive.strip_report(rep)


def make_dir(root, name, version):
    d = os.path.join(root, name)
    os.makedirs(os.path.join(d, "data"), exist_ok=True)
    os.makedirs(os.path.join(d, "home"), exist_ok=True)
    with open(os.path.join(d, "data", "model.yml"), "w") as f:
        f.write(model_text(version))
    synth.write(os.path.join(d, "data", "isa.yml"), synth.isa_db("x86", []))
    return d


def cache_paths(d):
    mp = os.path.join(d, "data", "model.yml")
    h = hashlib.sha256(open(mp, "rb").read()).hexdigest()
    comp = os.path.join(d, "data", ".model_%s.pickle" % h)
    home = os.path.join(d, "home", "model_%s.pickle" % h)
    return comp, home


class Env:
    """points OSACA's home cache into the scratch dir and answers os.access"""

    def __init__(self, d, readonly):
        self.d, self.readonly = d, readonly

    def __enter__(self):
        import osaca.semantics.hw_model as hm
        from osaca import utils
        self.hm, self.utils = hm, utils
        self.saved = (utils.CACHE_DIR, hm.os)
        utils.CACHE_DIR = os.path.join(self.d, "home")
        hm.os = vfs.AccessShim([os.path.join(self.d, "data")] if self.readonly else [])
        return self

    def __exit__(self, *a):
        self.utils.CACHE_DIR, self.hm.os = self.saved
        return False


def reference(root):
    if "ref" not in _G:
        _G["ref"] = {}
        for v in ("A", "B"):
            d = make_dir(root, "ref" + v, v)
            drive.reset_process_state()
            with Env(d, False):
                _G["ref"][v] = analyse(os.path.join(d, "data", "model.yml"),
                                       os.path.join(d, "data", "isa.yml"))
        assert _G["ref"]["A"] != _G["ref"]["B"]
    return _G["ref"]


# ------------------------------------------------------------------------------------------
# part 1: crash points of the cache write

def _cache_files(d):
    return sorted(glob.glob(os.path.join(d, "data", ".model*.pickle")) +
                  glob.glob(os.path.join(d, "home", "model*.pickle")))


def complete_pickle(root, readonly):
    """content and location (relative to the scratch dir) of the cache file a cold run writes"""
    key = ("pickle", readonly)
    if key not in _G:
        d = make_dir(root, "cold_%s" % readonly, "A")
        drive.reset_process_state()
        with Env(d, readonly):
            analyse(os.path.join(d, "data", "model.yml"), os.path.join(d, "data", "isa.yml"))
        files = _cache_files(d)
        if len(files) != 1 or (os.path.dirname(files[0]).endswith("home") != readonly):
            raise core.HarnessError("a cold run with the data dir %s left cache files %r"
                                    % ("read-only" if readonly else "writable", files))
        _G[key] = open(files[0], "rb").read()
        _G[("where", readonly)] = os.path.relpath(files[0], d)
    return _G[key]


def crash_case(item):
    root, readonly, kind, k = item
    P = _G[("pickle", readonly)]
    ref = _G["ref"]["A"]
    if kind == "cut":
        content = P[:k]
    elif kind == "hole":
        content = P[:k] + b"\x00" * (len(P) - k)
    elif kind == "flip":
        content = P[:k] + bytes([P[k] ^ 0xFF]) + P[k + 1:]
    elif kind == "nondict":
        content = pickle.dumps(["not", "a", "dict"])
    elif kind == "oldver":
        data = pickle.loads(P)
        data["internal_version"] = -1
        data["load_latency"] = {"gpr": 99.0}
        content = pickle.dumps(data)
    elif kind in ("tmpleft", "tmpleft-own"):
        content = None
    d = make_dir(root, "crash_%s_%s_%d_%d" % (readonly, kind, k, os.getpid()), "A")
    bad = []
    try:
        target = os.path.join(d, _G[("where", readonly)])
        if content is None:
            # a writer died before the rename - another process, or (own) this very process in
            # an earlier attempt, whose process id the next attempt shares
            pid = 4242 if kind == "tmpleft" else os.getpid()
            with open(target + ".%d.tmp" % pid, "wb") as f:
                f.write(P[:k])
        else:
            with open(target, "wb") as f:
                f.write(content)
        mp, ip = os.path.join(d, "data", "model.yml"), os.path.join(d, "data", "isa.yml")
        for attempt in (1, 2):
            drive.reset_process_state()
            try:
                with Env(d, readonly):
                    got = analyse(mp, ip)
            except Exception as e:
                bad.append(("crash", "run %d after a cache file %s at byte %d/%d fails: %s: %s"
                            % (attempt, kind, k, len(P), type(e).__name__, str(e)[:120])))
                break
            if got != ref:
                bad.append(("differs", "run %d after a cache file %s at byte %d gives a different "
                            "%s" % (attempt, kind, k, "report" if got[0] == ref[0] else "model")))
                break
        if not bad:
            try:
                data = pickle.load(open(target, "rb"))
                ok = isinstance(data, dict)
            except Exception:
                ok = False
            if not ok and kind != "flip":
                bad.append(("not-repaired", "after two runs the cache file (%s at %d) is still "
                            "unreadable" % (kind, k)))
    finally:
        shutil.rmtree(d, ignore_errors=True)
    return item, bad


# ------------------------------------------------------------------------------------------
# part 2: histories (BFS with canonical states)

OPS = ["run", "run-fresh", "editA", "editB", "rm", "ro", "rw", "tear", "oldver"]


def _cache_state(d, path, cur):
    if not os.path.exists(path):
        return "absent"
    try:
        data = pickle.load(open(path, "rb"))
        if not isinstance(data, dict):
            return "garbage"
        if data.get("internal_version") != drive.MachineModel.INTERNAL_VERSION:
            return "oldver"
        return "complete"
    except Exception:
        return "torn"


def apply_history(item):
    root, hist = item
    d = make_dir(root, "hist_%d_%s" % (os.getpid(), abs(hash(hist))), "A")
    state = {"content": "A", "ro": False}
    bad = []
    ref = _G["ref"]
    drive.reset_process_state()
    mp, ip = os.path.join(d, "data", "model.yml"), os.path.join(d, "data", "isa.yml")
    try:
        for step, op in enumerate(hist):
            if op in ("run", "run-fresh"):
                if op == "run-fresh":
                    drive.reset_process_state()
                try:
                    with Env(d, state["ro"]):
                        got = analyse(mp, ip)
                except Exception as e:
                    bad.append(("crash", "history %r: run at step %d fails: %s: %s"
                                % (list(hist), step, type(e).__name__, str(e)[:150])))
                    break
                if got != ref[state["content"]]:
                    other = "B" if state["content"] == "A" else "A"
                    bad.append(("stale" if got == ref[other] else "differs",
                                "history %r: run at step %d gives %s instead of the result for "
                                "content %s" % (list(hist), step,
                                                "the result for content " + other
                                                if got == ref[other] else "something else",
                                                state["content"])))
                    break
            elif op in ("editA", "editB"):
                v = op[-1]
                with open(mp, "w") as f:
                    f.write(model_text(v))
                state["content"] = v
            elif op == "rm":
                for p in glob.glob(os.path.join(d, "data", ".*.pickle")) + \
                        glob.glob(os.path.join(d, "home", "*.pickle")):
                    os.unlink(p)
            elif op == "ro":
                state["ro"] = True
            elif op == "rw":
                state["ro"] = False
            elif op in ("tear", "oldver"):
                for p in glob.glob(os.path.join(d, "data", ".*.pickle")) + \
                        glob.glob(os.path.join(d, "home", "*.pickle")):
                    raw = open(p, "rb").read()
                    if op == "tear":
                        open(p, "wb").write(raw[:len(raw) // 2])
                    else:
                        try:
                            data = pickle.loads(raw)
                            data["internal_version"] = -1
                            data["load_latency"] = {"gpr": 77.0}
                            open(p, "wb").write(pickle.dumps(data))
                        except Exception:
                            pass
        canon_state = (state["content"], state["ro"],
                       tuple(sorted((os.path.basename(p)[:12], _cache_state(d, p, None))
                                    for p in glob.glob(os.path.join(d, "data", ".*.pickle")) +
                                    glob.glob(os.path.join(d, "home", "*.pickle")))),
                       len(drive.MachineModel._runtime_cache))
    finally:
        shutil.rmtree(d, ignore_errors=True)
    return item, (bad, None if bad else canon_state)


# ------------------------------------------------------------------------------------------
# part 3: N processes cold-starting on the same directory (cooperative schedule exploration)

def race_execution(prefix, root, nproc, chunks, initial=None, readonly=False):
    """initial: None (no cache yet) or {path: bytes} of files present before the processes start
    (e.g. a cache file left torn by an interrupted run)"""
    import osaca.semantics.hw_model as hm
    if "race_dir" not in _G:
        _G["race_dir"] = make_dir(root, "race_%d" % os.getpid(), "A")
    d = _G["race_dir"]
    mp = os.path.join(d, "data", "model.yml")
    c = coop.Coop(prefix)
    if readonly:
        # data directory not writable: the cache goes to ~/.osaca/cache, which a fresh HOME does
        # not have yet - the processes race for creating it
        from osaca import utils
        fs = vfs.RaceFS(c, chunks=chunks, readonly_dirs=[os.path.join(d, "data")],
                        virtual_dirs=[utils.CACHE_DIR])
    else:
        fs = vfs.RaceFS(c, chunks=chunks)
    if initial:
        fs.files.update(initial)
    saved = (hm.Path, hm.os)
    hm.Path = vfs.make_path_class(fs)
    hm.os = vfs.RaceOS(fs, c)
    had_glob = getattr(hm, "glob", None)
    if had_glob is not None:
        hm.glob = vfs.RaceGlob(fs)
    drive.reset_process_state()
    results = {}

    def body():
        mm = drive.MachineModel(path_to_yaml=mp)
        return hashlib.sha256(repr(canon(mm._data)).encode()).hexdigest()

    try:
        for _ in range(nproc):
            c.add(body)
        c.run()
    finally:
        hm.Path, hm.os = saved
        if had_glob is not None:
            hm.glob = had_glob
    _LAST_FS["files"] = dict(fs.files)
    final = {}
    for name, content in fs.files.items():
        try:
            data = pickle.loads(content)
            final[os.path.basename(name)] = "complete" if isinstance(data, dict) else "garbage"
        except Exception:
            final[os.path.basename(name)] = "torn(%d bytes)" % len(content)
    return c, (dict(c.results), dict(c.errors), final, list(fs.log))


def race_config(item):
    root, nproc, chunks, bound, maxexec = item[:5]
    start = item[5] if len(item) > 5 else "empty"
    readonly = start == "readonly-data-dir"
    ref_dig = _G["ref"]["A"][0]
    n = 0
    bad = []
    outcomes = set()
    initial = None
    if start == "torn":
        # learn name and content of the cache file from one undisturbed cold start, then let the
        # processes start on a directory in which that file was left half-written
        c0, (r0, e0, f0, l0) = race_execution([], root, 1, 1)
        files = dict(_LAST_FS["files"])
        initial = {k: v[:len(v) // 2] for k, v in files.items() if k.endswith(".pickle")}
        if not initial:
            # nothing to tear: the other configurations show why (a single cold start that fails
            # or writes no cache); run() insists that this never happens silently
            return item, (0, [], 0)

    def mk(prefix):
        return race_execution(prefix, root, nproc, chunks, initial, readonly=readonly)

    for choices, (results, errors, final, log) in coop.explore(mk, bound=bound,
                                                                max_executions=maxexec):
        n += 1
        outcomes.add((tuple(sorted(final.items())), tuple(sorted(errors))))
        for pid, err in errors.items():
            bad.append(("race-crash", choices, "process %d fails: %s" % (pid, err[:300])))
        for pid, dig in results.items():
            if dig != ref_dig:
                bad.append(("race-differs", choices, "process %d got different model data" % pid))
        pk = {k: v for k, v in final.items() if k.endswith(".pickle")}
        if not pk or any(v != "complete" for v in pk.values()):
            bad.append(("race-torn-cache", choices, "cache after the race: %r" % final))
    return item, (n, bad[:20], len(outcomes))


# ------------------------------------------------------------------------------------------
# part 4: pickles lying in the package directory vs. a cold parse of the same file

def shipped_pickle_case(name):
    from osaca import utils
    src = os.path.join(drive.DATA, name + ".yml")
    h = hashlib.sha256(open(src, "rb").read()).hexdigest()
    stem = os.path.basename(name)
    pk = os.path.join(os.path.dirname(src), ".%s_%s.pickle" % (stem, h))
    if not os.path.exists(pk):
        return name, ("absent", None)
    try:
        data = pickle.load(open(pk, "rb"))
    except Exception as e:
        return name, ("unreadable", str(e)[:100])
    if data.get("internal_version") != drive.MachineModel.INTERNAL_VERSION:
        return name, ("other-version", None)
    staged = utils.find_datafile(name + ".yml")
    assert staged.startswith(utils.DATA_DIRS[0]), staged
    mm = drive.MachineModel(path_to_yaml=staged)
    same = canon(mm._data) == canon(data)
    return name, ("same" if same else "DIFFERENT", None)


# ------------------------------------------------------------------------------------------

def run(ctx):
    res = core.Result()
    root = ctx.sub("c17")
    ref = reference(root)
    # part 1
    items = []
    for readonly in (False, True):
        P = complete_pickle(root, readonly)
        n = len(P)
        if ctx.thorough:
            cuts = list(range(n))
        else:
            cuts = sorted(set(list(range(0, 48)) + list(range(48, n - 32, 11)) +
                              list(range(max(0, n - 32), n))))
        items += [(root, readonly, "cut", k) for k in cuts]
        items += [(root, readonly, "hole", k) for k in cuts[::9]]
        items += [(root, readonly, "flip", k) for k in (0, 1, 2, 10, n // 2, n - 1)]
        items += [(root, readonly, "tmpleft", k) for k in (0, n // 2)]
        items += [(root, readonly, "tmpleft-own", k) for k in (0, n // 2)]
        items += [(root, readonly, "nondict", 0), (root, readonly, "oldver", 0)]
    out = core.pmap(crash_case, core.rotate(items, ctx.seed))
    for (root_, readonly, kind, k), bad in out:
        res.states += 1
        res.traces += 2
        res.transitions += 2
        res.nontrivial += 1
        res.outcomes.add(("crash", kind, bool(bad)))
        for bk, what in bad:
            res.violations.append(core.Violation(
                {"part": "crash-points", "kind": bk, "location": "home" if readonly else "companion",
                 "state": kind},
                "[cache in %s dir] %s" % ("home" if readonly else "data", what),
                {"part": "crash-points", "readonly": readonly, "state": kind, "offset": k,
                 "what": what}))
    res.extra["crash_states"] = len(items)
    res.extra["pickle_bytes"] = len(_G[("pickle", False)])
    res.add_sample({"crash_state": "cache file cut at byte 17 of %d, data dir writable"
                    % len(_G[("pickle", False)])})
    # part 2: BFS over histories with canonical states
    depth = 4 if ctx.thorough else 3
    seen = {}
    frontier = [()]
    nhist = 0
    for lvl in range(depth):
        cand = [h + (op,) for h in frontier for op in OPS]
        # a history is only interesting if it ends in an observation or changes state
        hout = core.pmap(apply_history, [(root, h + ("run",)) for h in cand])
        nxt = []
        for (root_, h), (bad, st) in hout:
            nhist += 1
            res.states += 1
            res.traces += sum(1 for o in h if o.startswith("run"))
            res.transitions += len(h)
            res.nontrivial += 1
            for bk, what in bad:
                res.violations.append(core.Violation(
                    {"part": "histories", "kind": bk}, what,
                    {"part": "histories", "history": list(h), "what": what}))
            if st is not None and st not in seen:
                seen[st] = h
                nxt.append(h[:-1])
        frontier = nxt
        if not frontier:
            res.extra["history_fixpoint_at_depth"] = lvl + 1
            break
    res.extra["histories"] = nhist
    res.extra["history_states"] = len(seen)
    res.add_sample({"history": ["run", "editB", "tear", "ro", "run"]})
    # part 3: races
    rplan = [(root, 2, 1, 2, None), (root, 2, 2, 2, None), (root, 3, 1, 1, 1500),
             (root, 2, 1, 2, None, "torn"), (root, 3, 1, 1, 1500, "torn"),
             (root, 2, 1, 2, None, "readonly-data-dir")]
    if ctx.thorough:
        rplan = [(root, 2, 1, None, None), (root, 2, 2, 3, None), (root, 2, 3, 2, None),
                 (root, 3, 1, 2, 6000), (root, 3, 2, 1, 6000),
                 (root, 2, 1, None, None, "torn"), (root, 2, 2, 2, None, "torn"),
                 (root, 3, 1, 2, 6000, "torn"),
                 (root, 2, 1, None, None, "readonly-data-dir"),
                 (root, 3, 1, 1, 3000, "readonly-data-dir")]
    rout = core.pmap(race_config, rplan, chunk=1)
    skipped_torn = [ritem for ritem, (n, bad, nout) in rout if n == 0]
    for ritem, (n, bad, nout) in rout:
        root_, nproc, chunks, bound, mx = ritem[:5]
        start = ritem[5] if len(ritem) > 5 else "empty"
        res.states += n
        res.traces += n
        res.transitions += n
        res.nontrivial += n
        res.outcomes.add(("race", nproc, nout))
        res.add_sample({"race": "%d processes cold-start (%s cache dir), write cut into %d chunk(s)"
                        % (nproc, start, chunks), "preemption_bound": bound if bound is not None
                        else "complete", "schedules": n, "execution_cap": mx})
        if mx and n >= mx:
            res.caps_hit.append("race %d procs/%d chunks: stopped after %d schedules" %
                                (nproc, chunks, n))
        for bk, choices, what in bad:
            res.violations.append(core.Violation(
                {"part": "race", "kind": bk}, "[%d processes, %d chunks, start=%s] schedule %r: %s"
                % (nproc, chunks, start, choices, what),
                {"part": "race", "nproc": nproc, "chunks": chunks, "schedule": choices,
                 "start": start, "what": what}))
    # part 4
    if ctx.thorough:
        names = drive.shipped_archs() + ["isa/x86", "isa/aarch64"]
    else:
        names = ["zen1", "n1", "tx2", "isa/aarch64"]
    drive.stage(ctx, names)
    pout = core.pmap(shipped_pickle_case, names, chunk=1)
    verdicts = collections.Counter()
    for name, (verdict, info) in pout:
        verdicts[verdict] += 1
        res.traces += 1
        if verdict in ("DIFFERENT", "unreadable"):
            res.violations.append(core.Violation(
                {"part": "shipped-pickle", "kind": verdict},
                "[%s] the cache file lying next to the model file is %s from a fresh parse of the "
                "same file (%s)" % (name, verdict.lower(), info),
                {"part": "shipped-pickle", "file": name}))
    res.extra["package_dir_pickles"] = dict(verdicts)
    if skipped_torn and not res.violations:
        raise core.HarnessError("a cold start left no cache file to tear although nothing else is "
                                "wrong: %r" % (skipped_torn,))
    res.evaluations = res.traces
    res.rule = ("(1) every byte prefix of the cache file (quick: a dense subset), zero-filled holes, "
                "flipped bytes, non-dict pickle, other internal_version, left-over temporary file, in "
                "the data dir and in the home cache: two later runs must succeed with the cache-free "
                "result and leave a readable cache; (2) BFS over histories of {run, run in fresh "
                "process state, edit A/B, delete caches, data dir read-only/writable, tear caches, "
                "plant other-version caches} with canonical states; (3) all schedules of 2-3 processes "
                "cold-starting on one directory with scheduling points at exists/open/truncate/write "
                "chunk/close/replace (preemption-bounded); (4) package-dir pickles vs. fresh parse")
    res.assumptions = ["torn states = byte prefixes and zero-filled holes; arbitrary garbage only by "
                       "classes", "os.access answers are shimmed (sandbox runs as root)",
                       "race: file operations are atomic at the granularity of the shim's points"]
    return res


def replay(ctx, payload):
    r = payload["replay"]
    root = ctx.sub("c17")
    reference(root)
    if r["part"] == "crash-points":
        complete_pickle(root, r["readonly"])
        _, bad = crash_case((root, r["readonly"], r["state"], r["offset"]))
        print(bad)
        return 1 if bad else 0
    if r["part"] == "histories":
        _, (bad, st) = apply_history((root, tuple(r["history"])))
        print(bad)
        return 1 if bad else 0
    if r["part"] == "race":
        initial = None
        if r.get("start") == "torn":
            race_execution([], root, 1, 1)
            initial = {k: v[:len(v) // 2] for k, v in _LAST_FS["files"].items()
                       if k.endswith(".pickle")}
        ro = r.get("start") == "readonly-data-dir"
        c, obs = race_execution(r["schedule"], root, r["nproc"], r["chunks"], initial, readonly=ro)
        c2, obs2 = race_execution(r["schedule"], root, r["nproc"], r["chunks"], initial,
                                  readonly=ro)
        assert obs[:3] == obs2[:3], "replay not deterministic"
        print(obs[1], obs[2], obs[3])
        pk = {k: v for k, v in obs[2].items() if k.endswith(".pickle")}
        return 1 if (obs[1] or not pk or any(v != "complete" for v in pk.values())) else 0
    return 1
