"""C18 - analyses are independent of what was analysed before in the same process."""
import hashlib
import io
import itertools
import multiprocessing as mp
import os
import pickle
import subprocess
import sys
import traceback

from mc import core, drive

LEVEL = "model_checking"
_A = {}


def alphabet(d):
    """name -> dict(path, isa, arch, fixed, ignore_unknown, flags)"""
    ex = os.path.join(core.REPO, "examples", "update", "update.s.zen.gcc.s")
    tk = os.path.join(core.REPO, "tests", "test_files", "kernel_aarch64.s")

    def w(name, lines):
        p = os.path.join(d, name)
        with open(p, "w") as f:
            f.write("\n".join(lines) + "\n")
        return p

    rmw = w("rmw_unknown.s", ["movq (%rax), %rbx", "addq $1, (%rax)", "frobnicate %rax",
                              "movq (%rax), %rcx", "vaddpd (%rdx), %xmm1, %xmm2",
                              "addq $8, %rax"])
    ld = w("loads.s", ["movq (%rax), %rbx", "movq 8(%rax), %rcx", "addq %rbx, %rcx"])
    pp = w("prepost.s", ["ldr x1, [x2], #8", "ldr x3, [x4, #16]!", "add x1, x1, x3",
                         "str x1, [x5], #8", "subs x6, x6, #1", "b.ne .L1"])
    # the same lines on a model that knows them and on one that does not (ivb has no FMA), and on
    # a model that composes the memory form vs. one with an entry of its own
    fma = w("fma_mem.s", ["vfmadd231pd 32(%rdx,%rax), %ymm1, %ymm2", "vmovapd (%rdx), %ymm3",
                          "vaddpd %ymm2, %ymm3, %ymm1", "addq $32, %rax"])
    # a write-back access whose roles come from the default rule (no ISA entry for ld1)
    ld1 = w("ld1_post.s", ["ld1 {v0.2d, v1.2d}, [x1], #32", "fadd v2.2d, v0.2d, v1.2d",
                           "str q2, [x3], #16", "subs x4, x4, #1", "b.ne .L1"])
    # a kernel above the 50-line threshold of the multi-process dependency search
    big = w("big55.s", ["addq $1, %%r%d" % (8 + i % 8) for i in range(55)])
    return {
        "ld1-tx2": dict(path=ld1, isa="aarch64", arch="tx2", ignore_unknown=True),
        "big-zen1": dict(path=big, isa="x86", arch="zen1"),
        "fma-ivb": dict(path=fma, isa="x86", arch="ivb"),
        "fma-hsw": dict(path=fma, isa="x86", arch="hsw"),
        "upd-zen1": dict(path=ex, isa="x86", arch="zen1"),
        "upd-zen1-fixed": dict(path=ex, isa="x86", arch="zen1", fixed=True),
        "rmw-zen1": dict(path=rmw, isa="x86", arch="zen1", ignore_unknown=True),
        "loads-zen1": dict(path=ld, isa="x86", arch="zen1"),
        "a64-tx2": dict(path=tk, isa="aarch64", arch="tx2"),
        "prepost-a64fx-f": dict(path=pp, isa="aarch64", arch="a64fx", flags=True),
        "upd-zen3": dict(path=ex, isa="x86", arch="zen3"),
        "upd-noarch": dict(path=ex, isa="x86", arch=None),
    }


def state_digest(extra=None):
    """digest of the process-global state later analyses can observe"""
    from osaca.parser import ParserX86ATT, ParserAArch64
    from osaca.parser.instruction_form import InstructionForm
    from osaca import osaca as cli
    import osaca.semantics.kernel_dg as kd
    h = hashlib.sha256()

    def feed(x):
        try:
            h.update(pickle.dumps(x))
        except Exception:
            h.update(repr(x).encode())

    rc = drive.MachineModel._runtime_cache
    for k in sorted(rc):
        feed((k, rc[k]))
    feed(InstructionForm.__init__.__defaults__)
    feed(kd.KernelDG.is_memload.__defaults__)
    feed(kd.KernelDG.is_memstore.__defaults__)
    for cls in (ParserX86ATT, ParserAArch64):
        inst = cls._instance
        if inst is not None:
            feed(sorted((k, repr(v)[:200]) for k, v in vars(inst).items()
                        if not hasattr(v, "parseString")))
    feed(tuple(cli.get_asm_parser.cache_info()))
    if extra is not None:
        feed(extra)
    return h.hexdigest()[:16]


def run_cli(a):
    return drive.run_cli_inprocess(a["path"], arch=a["arch"], fixed=a.get("fixed", False),
                                   ignore_unknown=a.get("ignore_unknown", False),
                                   flags=a.get("flags", False))


_LIB = {}


def run_lib(a):
    """library level: one MachineModel + ArchSemantics per architecture, reused"""
    from osaca.frontend import Frontend
    from osaca.semantics import reduce_to_section
    arch = a["arch"] or ("spr" if a["isa"] == "x86" else "v2")
    if arch not in _LIB:
        mm = drive.MachineModel(arch=arch)
        _LIB[arch] = (mm, drive.ArchSemantics(mm))
    mm, sem = _LIB[arch]
    parser = drive.get_parser(a["isa"])
    with open(a["path"]) as f:
        kernel = reduce_to_section(parser.parse_file(f.read()), a["isa"])
    sem.add_semantics(kernel)
    if not a.get("fixed"):
        sem.assign_optimal_throughput(kernel)
        sem.assign_optimal_throughput(kernel)
    g = drive.KernelDG(kernel, parser, mm, sem, 10, a.get("flags", False))
    fe = Frontend(a["path"], arch=arch)
    return drive.strip_report(fe.full_analysis(kernel, g, ignore_unknown=a.get("ignore_unknown",
                                                                               False)))


class _AgedClock:
    """stands in for the `time` module inside kernel_dg: the process has been alive for an hour
    before its first analysis and idles for another hour between two analyses (a long-lived
    process is part of 'what happened before'); the clock never jumps during an analysis"""

    def __init__(self):
        import time as _t
        self._t = _t
        self.offset = 0.0

    def time(self):
        return self._t.time() + self.offset

    def __getattr__(self, name):
        return getattr(self._t, name)


def _child(conn, level, hist):
    try:
        import osaca.semantics.kernel_dg as kd
        clock = _AgedClock()
        kd.time = clock
        out = []
        for name in hist:
            clock.offset += 3600.0
            a = _A[name]
            rep = run_cli(a) if level == "cli" else run_lib(a)
            extra = None
            if level == "lib":
                extra = sorted((k, hashlib.sha256(pickle.dumps(v[0]._data)).hexdigest())
                               for k, v in _LIB.items())
            out.append((rep, state_digest(extra)))
        conn.send(("ok", out))
    except BaseException:
        conn.send(("err", traceback.format_exc()[-1500:]))
    finally:
        conn.close()


def run_histories(level, hists, nproc=core.NPROC):
    """each history in a process forked from the pristine parent"""
    ctxm = mp.get_context("fork")
    results = {}
    pending = list(hists)
    running = []
    while pending or running:
        while pending and len(running) < nproc:
            h = pending.pop()
            pc, cc = ctxm.Pipe(duplex=False)
            p = ctxm.Process(target=_child, args=(cc, level, h))
            p.start()
            cc.close()
            running.append((h, p, pc))
        still = []
        for h, p, pc in running:
            if pc.poll(0.02):
                try:
                    results[h] = pc.recv()
                except EOFError:
                    results[h] = ("err", "child died")
                p.join()
            elif not p.is_alive():
                results[h] = ("err", "child exited without result (exit code %s)" % p.exitcode)
                p.join()
            else:
                still.append((h, p, pc))
        running = still
    return results


def fresh_cli_reference(ctx, name):
    a = _A[name]
    cmd = [sys.executable, "-m", "osaca"]
    if a["arch"]:
        cmd += ["--arch", a["arch"]]
    if a.get("fixed"):
        cmd.append("--fixed")
    if a.get("ignore_unknown"):
        cmd.append("--ignore-unknown")
    if a.get("flags"):
        cmd.append("-f")
    cmd.append(a["path"])
    env = dict(os.environ)
    env["HOME"] = ctx.home
    env["PYTHONHASHSEED"] = "0"
    p = subprocess.run(cmd, capture_output=True, text=True, env=env, cwd=ctx.scratch, timeout=600)
    if p.returncode != 0:
        raise core.HarnessError("fresh-process reference run failed: %s\n%s" % (cmd, p.stderr[-800:]))
    return drive.strip_report(p.stdout)


def run(ctx):
    res = core.Result()
    d = ctx.sub("c18files")
    _A.update(alphabet(d))
    names = ["zen1", "zen3", "ivb", "hsw", "tx2", "a64fx", "spr", "isa/x86", "isa/aarch64"]
    drive.stage_and_parse(ctx, names)   # in child processes: the parent stays pristine
    assert not drive.MachineModel._runtime_cache, "parent process state is not pristine"
    ref = {}
    for name in _A:
        ref[name] = fresh_cli_reference(ctx, name)
    depth = 3 if ctx.thorough else 2
    alpha = list(_A)
    for level in ("cli", "lib"):
        # references of this driver level from single-analysis histories in fresh processes
        singles = run_histories(level, [(n,) for n in alpha])
        lref = {}
        for (n,), (status, out) in singles.items():
            if status != "ok":
                res.violations.append(core.Violation(
                    {"level": level, "kind": "crash"}, "[%s] analysis %s fails in a fresh process: %s"
                    % (level, n, out), {"level": level, "history": [n], "what": out}))
                continue
            lref[n] = out[0][0]
            if out[0][0] != ref[n] and not (level == "lib" and _A[n]["arch"] is None):
                res.violations.append(core.Violation(
                    {"level": level, "kind": "differs-from-fresh-cli"},
                    "[%s] report of %s in a forked pristine process differs from a fresh CLI "
                    "process" % (level, n), {"level": level, "history": [n]}))
        init_state = None
        seen = set()
        frontier = [()]
        total = 0
        for lvl in range(depth):
            cand = [h + (n,) for h in frontier for n in alpha]
            # observe every analysis after every candidate history: h + (m,) for all m is simply
            # the next level, so one level of look-ahead is added at the last depth
            hists = cand
            outs = run_histories(level, hists)
            nxt = []
            for h in hists:
                status, out = outs[h]
                total += 1
                res.states += 1
                res.traces += len(h)
                res.transitions += len(h)
                res.nontrivial += 1 if len(h) > 1 else 0
                if status != "ok":
                    res.violations.append(core.Violation(
                        {"level": level, "kind": "crash"},
                        "[%s] history %r fails: %s" % (level, list(h), out),
                        {"level": level, "history": list(h), "what": out}))
                    continue
                for k, (rep, dig) in enumerate(out):
                    want = lref.get(h[k])
                    if want is not None and rep != want:
                        res.violations.append(core.Violation(
                            {"level": level, "kind": "history-dependent",
                             "analysis": h[k], "after": h[k - 1] if k else ""},
                            "[%s] history %r: report of %s (step %d) differs from its report in a "
                            "fresh process" % (level, list(h), h[k], k),
                            {"level": level, "history": list(h), "step": k}))
                        break
                res.outcomes.add((level, out[-1][1]))
                if out[-1][1] not in seen:
                    seen.add(out[-1][1])
                    nxt.append(h)
            frontier = nxt
            if not frontier:
                res.extra["%s_fixpoint_depth" % level] = lvl + 1
                break
        res.extra["%s_histories" % level] = total
        res.extra["%s_distinct_states" % level] = len(seen)
        res.add_sample({"level": level, "history": list(hists[len(hists) // 2])})
    res.evaluations = res.traces
    res.bounds = {"depth": depth, "alphabet": alpha}
    res.rule = ("breadth-first search over sequences of analyses (alphabet of 8: x86 example optimal / "
                "--fixed, read-modify-write + unknown mnemonic with --ignore-unknown, plain loads, "
                "AArch64 test kernel, pre/post-index with -f, another x86 model, no --arch) to depth 2 "
                "(thorough 3), each history executed in a process forked from a pristine parent, at two "
                "driver levels (CLI entry point per analysis; library objects reused per architecture); "
                "states are digests of the process-global state (in-process model cache, mutable "
                "defaults, parser singletons, lru_cache, data of reused models); every report is "
                "compared with the report of the same analysis in a fresh process")
    res.assumptions = ["state digest covers the globals named in the rule; state outside them is "
                       "still observed through the reports (differential oracle)"]
    return res


def replay(ctx, payload):
    r = payload["replay"]
    d = ctx.sub("c18files")
    _A.update(alphabet(d))
    drive.stage_and_parse(ctx, ["zen1", "zen3", "ivb", "hsw", "tx2", "a64fx", "spr", "isa/x86", "isa/aarch64"])
    h = tuple(r["history"])
    outs = run_histories(r["level"], [h] + [(n,) for n in set(h)])
    status, out = outs[h]
    if status != "ok":
        print(out)
        return 1
    bad = 0
    for k, (rep, dig) in enumerate(out):
        s1, o1 = outs[(h[k],)]
        same = s1 == "ok" and o1[0][0] == rep
        print(k, h[k], "same as fresh:", same)
        bad += 0 if same else 1
    return 1 if bad else 0
