"""C02 - optimised schedule never worse than uniform, never below the exact optimum by more
than the rounding step, and within 0.15 cycles of it on the enumerated 5355-kernel family."""
import itertools
import traceback

from mc import core, drive, portmodels
from mc.ref import ports as R
from mc.checks import c01

LEVEL = "model_checking"
_F = {}  # scheme -> dict(mm, sem, forms, ports)
GAP = 0.15
STEP = 0.01


def _setup(ctx):
    d = ctx.sub("c02")
    for name, ports in portmodels.SCHEMES.items():
        forms = portmodels.c02_forms(ports)
        path, isa = portmodels.write_model(d, "fam" + name, ports, forms, zero_tp=())
        mm = drive.MachineModel(path_to_yaml=path)
        _F[name] = dict(mm=mm, sem=drive.ArchSemantics(mm, path_to_yaml=isa), forms=forms,
                        ports=ports)
    c01._setup(ctx)


def family():
    f = ["f%d" % i for i in range(7)]
    fg = f + ["g%d" % i for i in range(7)]
    out = []
    for L in range(1, 5):
        out += list(itertools.product(f, repeat=L))
    for L in range(1, 4):
        out += [k for k in itertools.product(fg, repeat=L) if any(x[0] == "g" for x in k)]
    return out


def _alts(spec):
    if isinstance(spec, dict):
        return [R.norm_uops(v) for v in spec.values()]
    return [R.norm_uops(spec)]


def _work(item):
    fam, scheme, els = item
    M = _F[scheme] if fam == "family" else c01._M[scheme]
    ports = M["ports"]
    out = {"bad": [], "obs": None, "n": 0}
    try:
        parser = drive.get_parser("x86")
        text = "\n".join(c01._line(e) for e in els) + "\n"
        kernel = parser.parse_file(text)
        M["sem"].add_semantics(kernel)
        specs = []
        for e, ins in zip(els, kernel):
            if e in ("#c", "L:") or ins.throughput == 0.0:
                continue  # not summed
            specs.append(M["forms"][e])
        # exact optimum: min over the alternatives of the kernel's instructions
        opt = min(R.exact_optimum(combo, ports)
                  for combo in itertools.product(*[_alts(s) for s in specs])) if specs else 0.0
        tps = []
        s = M["sem"].get_throughput_sum(kernel)
        tps.append(max(s) if s else 0.0)
        for _ in range(2):
            M["sem"].assign_optimal_throughput(kernel)
            s = M["sem"].get_throughput_sum(kernel)
            tps.append(max(s) if s else 0.0)
        uni, o1, o2 = tps
        multi = any(len(a) > 1 and ("nested" in c01._shape([[c, sorted(p)] for c, p in a]) or
                                    "overlap" in c01._shape([[c, sorted(p)] for c, p in a]))
                    for s_ in specs for a in _alts(s_))
        has_alt = any(isinstance(s_, dict) for s_ in specs)
        for st, v in (("opt1", o1), ("opt2", o2)):
            out["n"] += 2
            if v > uni + 1e-9:
                out["bad"].append((st, "worse_than_uniform", "bottleneck %.4f after %s > uniform %.4f"
                                   % (v, st, uni), multi, has_alt))
            # uniform with the first alternative may itself be below 'opt' only if alternatives
            # exist; opt is the min over alternatives so the bound is valid for any choice
            if v < opt - STEP - 1e-6:
                out["bad"].append((st, "undercut", "bottleneck %.4f after %s undercuts the exact "
                                   "optimum %.4f by more than the 0.01 step" % (v, st, opt),
                                   multi, has_alt))
        if fam == "family":
            out["n"] += 1
            if o2 - opt > GAP + 1e-9:
                out["bad"].append(("opt2", "gap", "bottleneck %.4f is %.4f above the exact optimum %.4f"
                                   " (allowed 0.15)" % (o2, o2 - opt, opt), multi, has_alt))
        out["obs"] = (round(uni, 4), round(o1, 4), round(o2, 4), round(opt, 4))
    except Exception:
        out["bad"].append(("exception", "exception", traceback.format_exc()[-1500:], False, False))
    return item, out


def run(ctx):
    res = core.Result()
    _setup(ctx)
    items = []
    fam = family()
    assert len(fam) == 5355, len(fam)
    for scheme in (portmodels.SCHEMES if ctx.thorough else ["ABC"]):
        items += [("family", scheme, k) for k in fam]
    # clauses (1) and (2) on the multi-micro-op / alternative families of C01
    for scheme in portmodels.SCHEMES:
        names = [n for n in c01._M[scheme]["forms"]] + ["#c"]
        for L in (1, 2):
            items += [("c01", scheme, k) for k in itertools.product(names, repeat=L)]
        if ctx.thorough and scheme == "ABC":
            red = [n for n in names if n[0] in "dmta" or n in ("s00", "s13", "s26")]
            items += [("c01", scheme, k) for k in itertools.product(red[::2], repeat=3)]
    out = core.pmap(_work, core.rotate(items, ctx.seed))
    worst_gap = (-1, None)
    worst_under = (1, None)
    for (fam_, scheme, els), o in out:
        res.states += 1
        res.traces += 1
        res.transitions += o["n"]
        if o["obs"]:
            res.outcomes.add(o["obs"])
            uni, o1, o2, opt = o["obs"]
            if fam_ == "family":
                if o2 - opt > worst_gap[0]:
                    worst_gap = (round(o2 - opt, 4), list(els))
                if o2 - opt < worst_under[0]:
                    worst_under = (round(o2 - opt, 4), list(els))
            if o2 != uni:
                res.nontrivial += 1
        for st, clause, what, multi, has_alt in o["bad"]:
            key = {"family": fam_, "stage": st, "clause": clause,
                   "unequal_overlapping_port_sets": bool(multi), "alternatives": bool(has_alt)}
            res.violations.append(core.Violation(
                key, "model %s kernel %r: %s" % (scheme, list(els), what),
                {"family": fam_, "scheme": scheme, "kernel": list(els), "what": what}))
    for (fam_, scheme, els), o in out[:2] + out[6000:6002]:
        res.add_sample({"family": fam_, "model": scheme, "kernel": list(els),
                        "uniform/opt1/opt2/exact_optimum": o["obs"]})
    res.extra = {"family_kernels_per_scheme": len(fam), "worst_gap_over_optimum": worst_gap,
                 "largest_undercut": worst_under}
    # clauses (1) and (2) for real instructions on shipped models (kernels of C01 part b)
    from mc.checks import c01_shipped
    res.merge(c01_shipped.run_part_c02(ctx))
    res.evaluations = res.states
    res.rule = ("the complete 5355-kernel family of the property (7 one-cycle forms on all non-empty "
                "subsets of 3 ports, kernels <=4; with the 7 two-cycle forms, kernels <=3 containing "
                "one) and, for clauses 1-2, all kernels <=2 over the multi-micro-op/alternative forms "
                "of C01 and all kernels <=2 over <=40 real instructions (one per distinct micro-op list) "
                "of shipped models (quick 5, thorough all); compared with max_S confined(S)/|S|; non-trivial = optimisation changed the "
                "bottleneck")
    res.bounds = {"ports": 3, "family": "complete", "passes": 2}
    res.assumptions = [
        "exact optimum = max over port subsets of confined cycles / |S| (fractional scheduling, Hall)",
        "'random exploration' clause of the property replaced by the enumerated C01 families",
        "undercut tolerance 0.01 + 1e-6 for the two passes the CLI makes",
    ]
    return res


def replay(ctx, payload):
    r = payload["replay"]
    if r.get("part") == "shipped-models":
        from mc.checks import c01_shipped
        return c01_shipped.replay_c02(ctx, payload)
    _setup(ctx)
    item, o = _work((r["family"], r["scheme"], tuple(r["kernel"])))
    print("uniform/opt1/opt2/exact optimum:", o["obs"])
    for b in o["bad"]:
        print(b[0], b[1], b[2])
    return 1 if o["bad"] else 0
