"""C03 - register dependency graph is exactly the read-after-write relation."""
import itertools
import traceback

from mc import core, drive, dgfam
from mc.checks import realvocab
from mc.checks import isa_audit

LEVEL = "model_checking"
_FAM = {}
_INST = {}

REDUCED = ["opsd", "opbs", "opds", "opdb", "nodb", "zi", "fw", "fr"]
FLAG_MN = {"zi", "fw", "fr", "fc"}


def _setup(ctx):
    d = ctx.sub("c03")
    _FAM["x86"] = dgfam.Family("x86", d, "x86")
    _FAM["a64"] = dgfam.Family("aarch64", d, "a64")
    _FAM["a64p3"] = dgfam.Family("aarch64", d, "a64p3", p_index_latency=3)
    for f in _FAM.values():
        f.load()
        for pool in dgfam.POOLS[f.isa]:
            dgfam.warm_parse_cache(f.isa, [ri.text for _, ri in f.instances(pool)])


def _instances(famname, pool, reduced):
    key = (famname, pool, reduced)
    if key not in _INST:
        fam = _FAM[famname]
        # rmw reads and writes one memory location (store->load dependencies belong to C05/C06)
        inst = fam.instances(pool, REDUCED + ["ld", "st", "ldc", "ldcb"] if reduced
                             else [m for m in fam.mn if m not in ("rmw", "zi3")])
        if not reduced:
            # 3-operand forms: third operand cycles instead of the full cube
            keep = []
            for k, ri in inst:
                mn, ops = ri.tag, k[1]
                if fam.mn[mn]["kind"] == "reg" and len(ops) == 3:
                    regs = dgfam.POOLS[fam.isa][pool]
                    if ops[2] != regs[(regs.index(ops[0]) + regs.index(ops[1])) % 3]:
                        continue
                keep.append((k, ri))
            inst = keep
        _INST[key] = inst
    return _INST[key]


def _work(item):
    famname, pool, reduced, idxs = item
    fam = _FAM[famname]
    inst = _instances(famname, pool, reduced)
    ris = [inst[i][1] for i in idxs]
    has_flag = any(r.tag in FLAG_MN for r in ris)
    out = {"bad": [], "n": 0, "amb": 0, "sig": None}
    sig = []
    for flags in ((True, False) if has_flag else (True,)):
        try:
            kernel, g = dgfam.observe(fam, ris, flags, full=(len(ris) < 2))
            probs, n, amb, got = dgfam.compare_edges(fam, ris, kernel, g, flags)
            out["n"] += n
            out["amb"] += amb
            sig.append(tuple(sorted(got.items())))
            for kind, what in probs:
                out["bad"].append((kind, flags, what))
        except Exception:
            out["bad"].append(("exception", flags, traceback.format_exc()[-1200:]))
    out["sig"] = tuple(sig)
    return item, out


def _items(ctx):
    items = []
    plan = [("x86", "gprA", False), ("x86", "gprBP", True), ("x86", "gprR8", True),
            ("x86", "gprAH", True), ("x86", "gprSI", True),
            ("x86", "vec", True), ("a64", "gpr", False), ("a64", "vec", True),
            ("a64", "pred", True), ("a64p3", "gpr", True)]
    if ctx.thorough:
        plan = [(f, p, False) for f, p, _ in plan]
    for famname, pool, reduced in plan:
        n = len(_instances(famname, pool, reduced))
        for i in range(n):
            items.append((famname, pool, reduced, (i,)))
        for i, j in itertools.product(range(n), repeat=2):
            items.append((famname, pool, reduced, (i, j)))
        # length 3: middle instruction from a small representative set
        red = _instances(famname, pool, True)
        full = _instances(famname, pool, reduced)
        if ctx.thorough:
            mids = [k for k, (key, ri) in enumerate(full) if ri.tag in ("opsd", "opbs", "nodb",
                                                                         "fw", "st")]
            outer = [k for k, (key, ri) in enumerate(full) if ri.tag in REDUCED][::2]
            for i, j, k in itertools.product(outer, mids, outer):
                items.append((famname, pool, reduced, (i, j, k)))
        else:
            mids = [k for k, (key, ri) in enumerate(full) if ri.tag in ("opsd", "opbs")][::2]
            outer = [k for k, (key, ri) in enumerate(full) if ri.tag in ("opsd", "opbs", "fw", "fr",
                                                                          "zi")][::2]
            for i, j, k in itertools.product(outer, mids, outer):
                items.append((famname, pool, reduced, (i, j, k)))
    return items


def _vkey(kind, flags, fam, ris):
    tags = sorted({r.tag for r in ris})
    return {"kind": kind, "isa": fam.isa, "flags": flags,
            "mnemonic_kinds": ",".join(sorted({fam.mn[t]["kind"] if t in fam.mn else t
                                               for t in tags}))}


def run(ctx):
    import os
    res = core.Result()
    parts = os.environ.get("C03_PARTS", "abc")   # debugging aid; the registered commands run all
    _setup(ctx)
    items = core.rotate(_items(ctx), ctx.seed) if "a" in parts else []
    out = core.pmap(_work, items)
    for (famname, pool, reduced, idxs), o in out:
        fam = _FAM[famname]
        inst = _instances(famname, pool, reduced)
        ris = [inst[i][1] for i in idxs]
        res.states += 1
        res.traces += 1
        res.transitions += o["n"]
        res.unspecified += o["amb"]
        res.outcomes.add(hash(o["sig"]))
        if o["sig"] and any(o["sig"]):
            res.nontrivial += 1
        for kind, flags, what in o["bad"]:
            res.violations.append(core.Violation(
                _vkey(kind, flags, fam, ris) | {"part": "synthetic", "pool": pool},
                "[%s/%s flags=%s] kernel %r: %s" % (famname, pool, flags, [r.text for r in ris],
                                                    what),
                {"part": "synthetic", "family": famname, "pool": pool, "reduced": reduced,
                 "kernel": [r.text for r in ris], "idxs": list(idxs), "flags": flags,
                 "what": what}))
    for (famname, pool, reduced, idxs), o in (out[:2] + out[len(out) // 2: len(out) // 2 + 2]
                                              if out else []):
        inst = _instances(famname, pool, reduced)
        res.add_sample({"family": famname, "pool": pool,
                        "kernel": [inst[i][1].text for i in idxs],
                        "edges(flags on[, off])": [list(map(list, s)) for s in o["sig"]]})
    # (b) curated real vocabulary on shipped models
    if "b" in parts:
        res.merge(realvocab.run_part(ctx, "edges"))
    # (c) role-probing audit of the shipped ISA databases
    if "c" in parts:
        res.merge(isa_audit.run_part(ctx))
    res.evaluations = res.states
    res.rule = ("(a) synthetic ISA databases: every kernel of length 1 and 2 (and length 3 with a "
                "restricted middle instruction) over all instruction instances = mnemonic (9 two-"
                "operand role vectors, 3 three-operand vectors, no-ISA-entry default rule, zero "
                "idiom, hidden flag writer/reader/read-modify-write, memory source/destination, "
                "composed load, AArch64 pre/post-index) x register choice from pools with two "
                "aliasing widths + one unrelated register; flags on and off; (b) curated real "
                "vocabulary on shipped models. non-trivial = graph has at least one edge")
    res.bounds = {"kernel_length": 3, "register_pool_size": 3,
                  "families": sorted(_FAM), "tier": ctx.tier}
    res.assumptions = [
        "reference RAW-with-kill relation mc/ref/dg.py over the partition mc/ref/regs.py",
        "same consumer reached through data register and write-back register: either weight accepted "
        "(counted as unspecified)",
        "memory operands of the synthetic family never address the same location (C06 owns that)",
    ]
    return res


def replay(ctx, payload):
    _setup(ctx)
    r = payload["replay"]
    if r.get("part") == "isa-audit":
        return isa_audit.replay(ctx, payload)
    if r.get("part") != "synthetic":
        return realvocab.replay(ctx, payload)
    item = (r["family"], r["pool"], r["reduced"], tuple(r["idxs"]))
    _, o = _work(item)
    for b in o["bad"]:
        print(b)
    return 1 if o["bad"] else 0
