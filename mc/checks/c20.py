"""C20 - benchmark import snaps measurements and emits every imported form."""
import io
import itertools
import os
import traceback
import warnings

from mc import core, drive, synth

LEVEL = "model_checking"
_D = {}


# ------------------------------------------------------------------------------------------
# reference (mc/ref/bench)

def ref_tp(m):
    for n in range(1, 11):
        r = 1.0 / n
        if r * 0.95 <= m <= r * 1.05:
            return round(r, 5)
    return None


def ref_lt(m):
    k = round(m)
    if k > 0 and abs(m - k) <= 0.05 * k + 1e-12:
        return float(k)
    # nearest integer outside 5 %: the neighbour on the other side cannot be within 5 % either
    return None


def on_boundary(m, mode):
    """measurements on (or numerically at) a 5 % boundary are outside the alphabet"""
    if mode == "tp":
        return any(abs(m - (1.0 / n) * f) < 1e-9 for n in range(1, 11) for f in (0.95, 1.05))
    k = round(m)
    cands = {k - 1, k, k + 1}
    return any(c > 0 and (abs(m - c * 0.95) < 1e-9 or abs(m - c * 1.05) < 1e-9) for c in cands)


def decode(isa, code):
    if isa == "x86":
        if code == "r":
            return {"class": "register", "name": "gpr"}
        if code in ("x", "y", "z"):
            return {"class": "register", "name": code + "mm"}
        if code == "i":
            return {"class": "immediate", "imd": "int"}
        if code.startswith("m"):
            f = code[1:]
            return {"class": "memory", "base": "gpr" if "b" in f else None,
                    "offset": "imd" if "o" in f else None, "index": "gpr" if "i" in f else None,
                    "scale": 8 if "s" in f else 1}
    else:
        if code in list("wxbhsdq"):
            return {"class": "register", "prefix": code}
        if code.startswith("v"):
            return {"class": "register", "prefix": "v", "shape": code[1:2] or "d"}
        if code == "i":
            return {"class": "immediate", "imd": "int"}
        if code.startswith("m"):
            f = code[1:]
            return {"class": "memory", "base": "x" if "b" in f else None,
                    "offset": "imd" if "o" in f else None, "index": "gpr" if "i" in f else None,
                    "scale": 8 if "s" in f else 1, "pre_indexed": "r" in f,
                    "post_indexed": "p" in f}
    raise ValueError(code)


def mem_codes(isa):
    out = []
    for k in range(5):
        for sub in itertools.combinations("bois", k):
            if "s" in sub and "i" not in sub:
                continue
            out.append("m" + "".join(sub))
    if isa == "aarch64":
        out += ["mbr", "mbor", "mbp", "mbop", "mbisr"]
    return [c for c in out if c != "m"] + ["m"]


def codes(isa):
    if isa == "x86":
        return ["r", "x", "y", "z", "i"] + mem_codes(isa)
    return list("wxbhsdq") + ["v", "vb", "vh", "vs", "vd", "i"] + mem_codes(isa)


# ------------------------------------------------------------------------------------------

def _stage_models(ctx):
    from osaca import utils
    root = utils.DATA_DIRS[0]
    for isa, name in (("x86", "synx"), ("aarch64", "syna")):
        R = lambda k: synth.reg(isa, k)
        g, v = ("gpr", "xmm") if isa == "x86" else ("x", "d")
        forms = [synth.form("add", [R(g), R(g)], 1.0, 0.25, [[1, ["A"]]]),
                 synth.form("vaddpd", [R(v), R(v), R(v)], 3.0, 0.5, [[1, ["B"]]])]
        mm = synth.machine_model(isa, ["A", "B"], forms, arch_code=name.upper())
        synth.write(os.path.join(root, name + ".yml"), mm)
    drive.assert_scratch_home(ctx)
    # parse once here so that the workers find a complete cache file (they would otherwise
    # race on writing it)
    for name in ("synx", "syna"):
        drive.MachineModel(arch=name)


def run_import(isa, kind, text):
    """-> (forms list from the emitted YAML that were imported, warnings, error)"""
    from osaca.db_interface import import_benchmark_output
    import ruamel.yaml
    arch = "synx" if isa == "x86" else "syna"
    path = os.path.join(_D["dir"], "in_%d_%d.dat" % (os.getpid(), abs(hash(text)) % 10 ** 9))
    with open(path, "w") as f:
        f.write(text)
    out = io.StringIO()
    err = io.StringIO()
    import contextlib
    with warnings.catch_warnings(record=True) as w:
        warnings.simplefilter("always")
        with contextlib.redirect_stderr(err):
            import_benchmark_output(arch, kind, path, output=out)
    os.unlink(path)
    y = ruamel.yaml.YAML(typ="safe", pure=True)
    docs = y.load(out.getvalue())
    forms = docs.get("instruction_forms") or []
    return forms, [str(x.message) for x in w]


def _find(forms, mnemonic, ops):
    """all emitted forms with this mnemonic (any case) and these operands"""
    hits = []
    for f in forms:
        n = f.get("mnemonic", f.get("name"))
        if n is None or str(n).lower() != mnemonic.lower():
            continue
        fo = []
        for o in f.get("operands") or []:
            o = {k: v for k, v in dict(o).items() if k not in ("source", "destination")}
            fo.append(o)
        if _norm_ops(fo) == _norm_ops(ops):
            hits.append(f)
    return hits


def _norm_ops(ops):
    out = []
    for o in ops:
        o = dict(o)
        if o.get("class") == "memory":
            o = {k: o.get(k) for k in ("class", "base", "offset", "index", "scale",
                                       "pre_indexed", "post_indexed") if k in o or
                 k in ("class", "base", "offset", "index", "scale")}
            for k in ("pre_indexed", "post_indexed"):
                if k in o:
                    o[k] = bool(o[k])
        if o.get("class") == "register":
            o = {k: v for k, v in o.items() if v not in (None, False) and
                 k in ("class", "name", "prefix", "shape")}
        out.append(tuple(sorted((k, str(v)) for k, v in o.items())))
    return out


def _close(a, b):
    if a is None or b is None:
        return a is None and b is None
    return abs(float(a) - float(b)) < 1e-5 + 1e-9


def case_decode(item):
    """operand decoding: arity 1-2 all codes, arity 3 covering; ibench format"""
    isa, opcodes, mnemonic = item
    name = "%s-%s" % (mnemonic, "_".join(opcodes))
    text = "Using frequency 2.50GHz.\n%s-TP: 0.501 (clock cycles)  [DEBUG - result: 1.0]\n" \
           "%s-LT:   4.013 (clock cycles)  [DEBUG - result: 1.0]\n" % (name, name)
    try:
        forms, w = run_import(isa, "ibench", text)
    except Exception:
        return item, [("exception", traceback.format_exc()[-900:])]
    exp_ops = [decode(isa, c) for c in opcodes]
    hits = [f for f in _find(forms, mnemonic, exp_ops) if "mnemonic" in f]
    bad = []
    if len(hits) != 1:
        allm = [f for f in forms if str(f.get("mnemonic", f.get("name"))).lower() ==
                mnemonic.lower()]
        bad.append(("form-missing" if not hits else "form-duplicated",
                    "imported form %s: %d emitted forms carry mnemonic %r with operands %r "
                    "(forms with that mnemonic: %r)"
                    % (name, len(hits), mnemonic, exp_ops,
                       [(f.get("operands"), f.get("throughput"), f.get("latency"))
                        for f in allm][:3])))
    else:
        f = hits[0]
        if not _close(f.get("throughput"), 0.5) or not _close(f.get("latency"), 4.0):
            bad.append(("merge", "form %s: TP/LT lines not merged into one entry: throughput %r "
                        "latency %r" % (name, f.get("throughput"), f.get("latency"))))
    return item, bad


def case_pair(item):
    """two forms of one new mnemonic with the same operand count in one file: both are emitted"""
    isa, kind, c1, c2 = item
    names = ["twice-%s" % "_".join(c1), "twice-%s" % "_".join(c2)]
    if kind == "ibench":
        text = "Using frequency 2.50GHz.\n" + "".join(
            "%s-TP: 0.501 (clock cycles)  [DEBUG - result: 1.0]\n%s-LT:   4.01 (clock cycles)  "
            "[DEBUG - result: 1.0]\n" % (n, n) for n in names)
    else:
        text = "".join("%s\nLatency: 4.01 cy\nThroughput: 0.501 cy\n\n" % n for n in names)
    try:
        forms, w = run_import(isa, kind, text)
    except Exception:
        return item, [("exception", traceback.format_exc()[-900:])]
    bad = []
    for cs in (c1, c2):
        ops = [decode(isa, c) for c in cs]
        hits = [f for f in _find(forms, "twice", ops) if "mnemonic" in f]
        if len(hits) != 1:
            bad.append(("form-missing", "forms twice-%s and twice-%s imported together: %d emitted "
                        "forms carry the operands of twice-%s"
                        % ("_".join(c1), "_".join(c2), len(hits), "_".join(cs))))
    return item, bad


def case_measure(item):
    isa, kind, tp, lt, order = item
    name = "fresh-r_r" if isa == "x86" else "fresh-x_x"
    if kind == "ibench":
        l_tp = "%s-TP: %r (clock cycles)  [DEBUG - result: 1.0]\n" % (name, tp)
        l_lt = "%s-LT:   %r (clock cycles)  [DEBUG - result: 1.0]\n" % (name, lt)
        body = {"tl": l_tp + l_lt, "lt": l_lt + l_tp, "t": l_tp, "l": l_lt}[order]
        text = "Using frequency 2.50GHz.\n" + body
        has_tp, has_lt = "t" in order, "l" in order
    else:
        text = "%s\nLatency: %r cy\nThroughput: %r cy\n\n" % (name, lt, tp)
        has_tp = has_lt = True
    try:
        forms, w = run_import(isa, kind, text)
    except Exception:
        return item, [("exception", traceback.format_exc()[-900:])]
    ops = [decode(isa, c) for c in name.split("-")[1].split("_")]
    hits = [f for f in _find(forms, "fresh", ops) if "mnemonic" in f]
    bad = []
    if len(hits) != 1:
        return item, [("form-missing", "%d forms emitted for %s" % (len(hits), name))]
    f = hits[0]
    etp = ref_tp(tp) if has_tp else None
    elt = ref_lt(lt) if has_lt else None
    if not _close(f.get("throughput"), etp):
        bad.append(("snap-tp", "measured throughput %r: emitted %r, expected %r"
                    % (tp, f.get("throughput"), etp)))
    if not _close(f.get("latency"), elt):
        bad.append(("snap-lt", "measured latency %r: emitted %r, expected %r"
                    % (lt, f.get("latency"), elt)))
    return item, bad


BLOCK_KINDS = ["ok", "noblank", "extra", "short-last"]


def case_blocks(item):
    isa, kinds = item
    reg = "r" if isa == "x86" else "x"
    text = ""
    names = []
    stop = None
    for k, kd in enumerate(kinds):
        nm = "blk%d-%s_%s" % (k, reg, reg)
        names.append(nm)
        b = "%s\nLatency: %d.01 cy\nThroughput: 0.501 cy\n" % (nm, k + 2)
        last = k == len(kinds) - 1
        if kd == "ok":
            b += "\n"
        elif kd == "noblank":
            if stop is None:
                stop = k
        elif kd == "extra":
            b += "unexpected extra line\n\n"
            if stop is None:
                stop = k
        elif kd == "short-last":
            if last:
                b = "%s\nLatency: %d.01 cy\n" % (nm, k + 2)
            else:
                b = "%s\nLatency: %d.01 cy\n\n" % (nm, k + 2)
            if stop is None:
                stop = k
        text += b
    try:
        forms, w = run_import(isa, "asmbench", text)
    except Exception:
        return item, [("exception", "blocks %r: %s" % (list(kinds), traceback.format_exc()[-700:]))]
    bad = []
    ops = [decode(isa, reg), decode(isa, reg)]
    for k, nm in enumerate(names):
        hits = [f for f in _find(forms, nm.split("-")[0], ops) if "mnemonic" in f]
        if stop is None or k < stop:
            if len(hits) != 1 or not _close(hits[0].get("latency"), float(k + 2)):
                bad.append(("block-lost", "blocks %r: well-formed block %d before the first "
                            "malformed one is not emitted correctly (%r)"
                            % (list(kinds), k, [(h.get("latency"), h.get("throughput"))
                                                for h in hits])))
        elif k >= stop and hits:
            bad.append(("block-after-stop", "blocks %r: block %d %s was imported"
                        % (list(kinds), k, "is malformed itself (the import stops at it) but"
                           if k == stop else "after the malformed block %d" % stop)))
    return item, bad


def run(ctx):
    res = core.Result()
    _stage_models(ctx)
    _D["dir"] = ctx.sub("c20")
    # (1) operand decoding and emission
    ditems = []
    for isa in ("x86", "aarch64"):
        cs = codes(isa)
        for mn in ("newop", "NEWOP", "add", "vaddpd", "cvtps2pd", "fcmlt"):
            for c in cs:
                ditems.append((isa, (c,), mn))
            pairs = itertools.product(cs, repeat=2)
            if mn in ("NEWOP", "cvtps2pd", "fcmlt") and not ctx.thorough:
                pairs = itertools.product(cs[::3], repeat=2)
            for a, b in pairs:
                ditems.append((isa, (a, b), mn))
        for pos in range(3):
            for c in cs:
                ops = [cs[0], cs[1], cs[2]]
                ops[pos] = c
                ditems.append((isa, tuple(ops), "newop3"))
                ditems.append((isa, tuple(ops), "vaddpd"))
    # (2) measurements around the snapping points
    fac = (0.90, 0.949, 0.951, 1.0, 1.049, 1.051, 1.10)
    tps = sorted({round((1.0 / n) * f, 6) for n in range(1, 11) for f in fac} | {0.3, 1.5, 0.05})
    lts = sorted({round(k * f, 6) for k in (1, 2, 4, 12) for f in fac} | {0.3, 0.5, 2.5, 7.3})
    tps = [t for t in tps if not on_boundary(t, "tp")]
    lts = [l for l in lts if not on_boundary(l, "lt")]
    mitems = []
    for isa in ("x86", "aarch64"):
        for kind in ("ibench", "asmbench"):
            for tp in tps:
                mitems.append((isa, kind, tp, 4.0, "tl"))
            for lt in lts:
                mitems.append((isa, kind, 0.5, lt, "tl"))
        for order in ("lt", "t", "l"):
            for tp, lt in ((0.251, 4.013), (0.7, 2.5), (0.334, 11.9)):
                mitems.append((isa, "ibench", tp, lt, order))
        # every combination of accepted / rejected throughput and latency in one form
        for kind in ("ibench", "asmbench"):
            for tp in (0.251, 0.7, 0.3, 1.5):
                for lt in (4.013, 2.5, 7.3, 0.3):
                    mitems.append((isa, kind, tp, lt, "tl"))
    # (3) asmbench block structure
    bitems = [(isa, t) for isa in ("x86", "aarch64") for L in (1, 2, 3)
              for t in itertools.product(BLOCK_KINDS, repeat=L)]
    # (4) two forms of one new mnemonic and arity in one file
    pitems = []
    for isa in ("x86", "aarch64"):
        cs = codes(isa)
        red = cs[::max(1, len(cs) // 6)]
        for kind in ("ibench", "asmbench"):
            for a, b in itertools.permutations(red, 2):
                pitems.append((isa, kind, (a,), (b,)))
                pitems.append((isa, kind, (a, red[0]), (b, red[0])))
    for fn, items, part in ((case_decode, ditems, "decode"), (case_measure, mitems, "measure"),
                            (case_blocks, bitems, "blocks"), (case_pair, pitems, "pairs")):
        out = core.pmap(fn, core.rotate(items, ctx.seed))
        for item, bad in out:
            res.states += 1
            res.traces += 1
            res.transitions += 1
            res.nontrivial += 1
            res.outcomes.add((part, tuple(k for k, _ in bad)))
            for kind, what in bad:
                key = {"part": part, "kind": kind, "isa": item[0]}
                if part == "decode":
                    key["mnemonic_with_same_operand_count_in_model"] = (
                        (item[2].lower() == "add" and len(item[1]) == 2) or
                        (item[2].lower() == "vaddpd" and len(item[1]) == 3))
                if part == "blocks":
                    key["last_block_incomplete"] = item[1][-1] in ("noblank", "short-last")
                res.violations.append(core.Violation(
                    key, "[%s] %s" % (part, what), {"part": part, "item": list(item),
                                                    "what": what}))
        res.add_sample({part: list(items[len(items) // 2])})
    res.evaluations = res.states
    res.extra = {"decode_cases": len(ditems), "measurement_cases": len(mitems),
                 "block_files": len(bitems)}
    res.rule = ("every documented operand code of both ISAs (all memory code subsets) at arity 1-2, "
                "covering family at arity 3, mnemonics new to the model and already present in it, lower "
                "and upper case; measurements on a grid around every snapping point (1/n x {0.90, "
                "0.949, 0.951, 1, 1.049, 1.051, 1.10}, n = 1..10; k x the same factors, k in {1, 2, 4, "
                "12}; 0.3, 0.5, 2.5, ...), ibench TP/LT lines in both orders and alone, asmbench; all "
                "asmbench files of <= 3 blocks over {well-formed, blank line missing, extra line, "
                "truncated block}; the emitted YAML is parsed back")
    res.assumptions = ["measurements exactly on a 5 % boundary are excluded (float comparison there "
                       "is not specified)", "operand code table written from README.rst"]
    return res


def replay(ctx, payload):
    _stage_models(ctx)
    _D["dir"] = ctx.sub("c20")
    r = payload["replay"]
    item = r["item"]
    item = tuple(tuple(x) if isinstance(x, list) else x for x in item)
    fn = {"decode": case_decode, "measure": case_measure, "blocks": case_blocks,
          "pairs": case_pair}[r["part"]]
    _, bad = fn(item)
    for b in bad:
        print(b)
    return 1 if bad else 0
