"""C09 - x86 AT&T parser recovers every line and operand exactly as written.
(also hosts the machinery shared with C10)"""
import itertools
import traceback

from mc import core, drive
from mc.ref import asm as A

LEVEL = "model_checking"
ISA = "x86"


# ------------------------------------------------------------------------------------------
# operand pools

def x86_pool(thorough):
    regs = [{"t": "reg", "name": n} for n in A.x86_reg_names(thorough)]
    imms = []
    for v in (0, 1, -1, 255, -128, 2 ** 63, 2 ** 64 - 1):
        imms.append({"t": "imm", "v": v})
        imms.append({"t": "imm", "v": v, "hex": True})
    labels = [{"t": "label", "name": n} for n in (".L4", "..B1.4", "foo", "_bar.1", ".LBB0_3",
                                                  "rax_loop", "xmm0_done", "L1f")]
    mems = []
    for disp, hexa in ((None, False), (8, False), (-8, False), (16, True), (-16, True), (0, False)):
        for base, index in (("rax", None), ("rax", "rbx"), (None, "rbx"), (None, None)):
            scales = (None, 1, 2, 4, 8) if index else (None,)
            for sc in scales:
                if base is None and index is None and disp is None:
                    continue
                mems.append({"t": "mem", "disp": disp, "hex": hexa, "base": base, "index": index,
                             "scale": sc})
    mems.append({"t": "mem", "disp": 8, "base": "r13", "index": "r14", "scale": 4})
    mems.append({"t": "mem", "disp": None, "base": "rsp", "index": None, "scale": None})
    mems.append({"t": "mem", "disp": -2 ** 31, "base": "rbp", "index": None, "scale": None})
    return regs, imms, labels, mems


def x86_reduced(regs, imms, labels, mems):
    rr = [r for r in regs if r["name"] in ("rax", "eax", "al", "r10d", "r15b", "xmm0", "ymm15",
                                           "zmm31", "rbp", "sil")]
    ii = [i for i in imms if i["v"] in (0, -1, 255, 2 ** 64 - 1)]
    mm = mems[::5]
    return rr + ii + mm


MNEMONICS_X86 = ["movq", "vaddpd", "add", "vfmadd231pd", "lea", "shl", "vpermt2pd", "cmov3x"]


def cases(isa, thorough):
    """-> list of (mnemonic, [operand ASTs])"""
    out = []
    if isa == "x86":
        regs, imms, labels, mems = x86_pool(thorough)
        allops = regs + imms + mems
        out.append(("ret", []))
        out.append(("vzeroupper", []))
        for o in allops + labels:
            out.append(("push" if o["t"] != "label" else "jne", [o]))
        red = x86_reduced(regs, imms, labels, mems)
        for a, b in itertools.product(red, repeat=2):
            out.append(("movq", [a, b]))
        for lb in labels:  # a label can only be the first operand in this grammar
            for b in red[::4]:
                out.append(("jmp", [lb, b]))
        # arity 3-4: each position runs through the reduced pool, others fixed
        fix = [red[0], red[10], red[-1], red[4]]
        for n in (3, 4):
            for pos in range(n):
                for o in red:
                    ops = list(fix[:n])
                    ops[pos] = o
                    out.append(("vfmadd231pd" if n == 3 else "vpermil2pd", ops))
        for m in MNEMONICS_X86:
            out.append((m, [regs[0], regs[1]]))
    else:
        from mc.checks import c10
        out = c10.cases_a64(thorough)
    return out


def check_line(isa, mnemonic, ops, layout):
    """-> list of problems for one rendered instruction line"""
    render = A.x86_render if isa == "x86" else A.a64_render
    texts = [render(o) for o in ops]
    line, ctext = A.render_line(isa, mnemonic, texts, layout)
    probs = []
    p = drive.get_parser(isa)
    try:
        f = p.parse_line(line, 7)
    except Exception as e:
        return line, [("exception", "%s: %s" % (type(e).__name__, str(e)[:150]))]
    if f.line != line:
        probs.append(("verbatim", "line text %r != %r" % (f.line, line)))
    if f.line_number != 7:
        probs.append(("lineno", "line number %r != 7" % (f.line_number,)))
    if f.mnemonic != mnemonic or f.label is not None or f.directive is not None:
        probs.append(("class", "mnemonic %r label %r directive %r, expected instruction %r"
                      % (f.mnemonic, f.label, f.directive, mnemonic)))
        return line, probs
    if (f.comment or None) != ctext:
        probs.append(("comment", "comment %r, expected %r" % (f.comment, ctext)))
    if isa == "x86":
        exp = [A.x86_expect(o) for o in ops]
    else:
        exp = [e for o in ops for e in A.a64_expect(o)]
    got = [A.observed_op(isa, o) for o in f.operands]
    if len(got) != len(exp):
        probs.append(("count", "%d operands parsed, %d written (%r)" % (len(got), len(exp), got)))
        return line, probs
    for k, (g, e) in enumerate(zip(got, exp)):
        if g.get("t") == "reg" and e.get("t") == "reg" and e.get("name") in ("zr", "sp"):
            g = dict(g, name=str(g.get("name")).lower())  # alias names: case is not significant
        if g.get("t") == "mem" and e.get("t") == "mem" and isa == "aarch64":
            # the same for the stack pointer / zero register alias inside a memory operand
            g = dict(g)
            for part in ("base", "index"):
                r = g.get(part)
                if isinstance(r, dict) and str(r.get("name")).lower() in ("zr", "sp"):
                    g[part] = dict(r, name=str(r["name"]).lower())
        if g != e:
            if g.get("t") == "imm" and e.get("t") == "imm" and "fv" in g and "fv" in e and \
                    abs(g["fv"] - e["fv"]) < 1e-12 and g.get("ftype") == e.get("ftype"):
                continue
            probs.append(("operand:%s->%s" % (e.get("t"), g.get("t")),
                          "operand %d parsed as %r, written %r" % (k + 1, g, e)))
    return line, probs


def _work(item):
    isa, k, thorough = item
    mnemonic, ops = _CASES[isa][k]
    lays = A.layouts(isa, thorough) if len(ops) <= 2 else A.layouts(isa, False)[::3]
    if len(ops) == 2 and not thorough:
        lays = lays[::4]
    bad = []
    n = 0
    for lay in lays:
        line, probs = check_line(isa, mnemonic, ops, lay)
        n += 1
        for kind, what in probs:
            bad.append((kind, what, line,
                        [("mem-disp-only" if o.get("t") == "mem" and isa == "x86" and
                          not o.get("base") and not o.get("index") else o.get("t")) for o in ops]))
    return item, (n, bad)


_CASES = {}
KINDS = ["blank", "ws", "comment", "label", "directive", "instr", "instr+comment",
         # ';' is no statement separator for OSACA: inside comments (both comment styles of the
         # x86 grammar) and inside a quoted directive string the line stays one line
         "comment;", "instr+comment;", "directive-str"]


def line_of_kind(isa, kind, k):
    c = "#" if isa == "x86" else "//"
    ins = "addq $%d, %%rax" % k if isa == "x86" else "add x1, x1, #%d" % k
    c2 = "//" if (isa != "x86" or k % 2 == 0) else "#"
    return {
        "blank": "", "ws": " \t ", "comment": "%s note %d" % (c, k), "label": ".L%d:" % k,
        "directive": ".align %d" % (2 ** (k % 4)), "instr": ins,
        "instr+comment": ins + " %s tail %d" % (c, k),
        "comment;": "%s prologue %d; setup" % (c2, k),
        "instr+comment;": ins + " %s accumulate %d; then advance" % (c2, k),
        "directive-str": '.string "a;b%d"' % k,
    }[kind]


def _file_work(item):
    isa, kinds = item
    text = "\n".join(line_of_kind(isa, kd, k) for k, kd in enumerate(kinds))
    bad = []
    p = drive.get_parser(isa)
    try:
        forms = p.parse_file(text)
    except Exception as e:
        return item, [("exception", "%s: %s" % (type(e).__name__, str(e)[:200]))]
    exp = [(k + 1, kd, line_of_kind(isa, kd, k)) for k, kd in enumerate(kinds)
           if kd not in ("blank", "ws")]
    if len(forms) != len(exp):
        return item, [("count", "%d parsed lines for %d non-blank lines" % (len(forms), len(exp)))]
    for f, (ln, kd, line) in zip(forms, exp):
        if f.line_number != ln:
            bad.append(("lineno", "line %r: number %r, expected %d" % (line, f.line_number, ln)))
        if f.line != line:
            bad.append(("verbatim", "line text %r, expected %r" % (f.line, line)))
        cls = [f.mnemonic is not None, f.label is not None, f.directive is not None,
               (f.comment is not None and f.mnemonic is None and f.label is None and
                f.directive is None)]
        want = {"instr": 0, "instr+comment": 0, "label": 1, "directive": 2, "comment": 3,
                "comment;": 3, "instr+comment;": 0, "directive-str": 2}[kd]
        if cls != [i == want for i in range(4)]:
            bad.append(("class", "line %r classified (instr,label,directive,comment)=%r, expected "
                        "%s" % (line, cls, kd)))
        if kd.startswith("instr+comment") and not f.comment:
            bad.append(("comment", "trailing comment of %r lost" % line))
    return item, bad


def run_isa(ctx, isa, prop):
    res = core.Result()
    _CASES[isa] = cases(isa, ctx.thorough)
    items = [(isa, k, ctx.thorough) for k in range(len(_CASES[isa]))]
    out = core.pmap(_work, core.rotate(items, ctx.seed))
    for (isa_, k, _), (n, bad) in out:
        res.states += n
        res.traces += n
        res.transitions += n * max(1, len(_CASES[isa][k][1]))
        if len(_CASES[isa][k][1]) >= 2:
            res.nontrivial += n
        res.outcomes.add((len(_CASES[isa][k][1]), bool(bad)))
        for kind, what, line, optypes in bad:
            res.violations.append(core.Violation(
                {"kind": kind, "isa": isa,
                 "displacement_only_memory_operand": "mem-disp-only" in optypes},
                "%r: %s" % (line, what), {"isa": isa, "line": line, "what": what}))
    # files over the line kinds
    fitems = [(isa, t) for L in range(1, 5) for t in itertools.product(KINDS, repeat=L)]
    fout = core.pmap(_file_work, fitems)
    for (isa_, kinds), bad in fout:
        res.states += 1
        res.traces += 1
        res.transitions += len(kinds)
        res.nontrivial += 1 if len(kinds) > 1 else 0
        for kind, what in bad:
            res.violations.append(core.Violation(
                {"kind": "file-" + kind, "isa": isa},
                "file of line kinds %r: %s" % (list(kinds), what),
                {"isa": isa, "file_kinds": list(kinds), "what": what}))
    mn, ops = _CASES[isa][len(_CASES[isa]) // 2]
    render = A.x86_render if isa == "x86" else A.a64_render
    for lay in A.layouts(isa, False)[:3]:
        res.add_sample(A.render_line(isa, mn, [render(o) for o in ops], lay)[0])
    res.add_sample({"file_of_line_kinds": list(fitems[-1][1])})
    res.evaluations = res.states
    res.extra = {"instruction_asts": len(_CASES[isa]), "files": len(fitems)}
    res.rule = ("instruction ASTs rendered with layout variants (leading blanks/tab, 1-3 blanks or tab "
                "after the mnemonic, four separator spacings, trailing blanks, trailing comment with/"
                "without separating blank) and parsed by the real parser, every field compared; arity "
                "0-1: every operand instance, arity 2: all ordered pairs of a reduced pool, arity 3+: "
                "covering family; all files of <= 4 lines over 10 line kinds (three of them with a semicolon inside a comment or a quoted string); non-trivial = >= 2 "
                "operands / >= 2 lines")
    res.assumptions = ["operand grammar of the ISA as encoded in mc/ref/asm.py",
                       "the empty memory operand '()' is outside the domain"]
    return res


def run(ctx):
    return run_isa(ctx, "x86", "C09")


def replay(ctx, payload, isa="x86"):
    r = payload["replay"]
    p = drive.get_parser(r["isa"])
    if "line" in r:
        try:
            f = p.parse_line(r["line"], 7)
            print("mnemonic", f.mnemonic, "operands", [A.observed_op(r["isa"], o) for o in f.operands],
                  "comment", f.comment)
        except Exception as e:
            print("exception", e)
        print("recorded:", r["what"])
        # replay = re-run the whole (cheap) family member is not reconstructible from text alone;
        # report whether the recorded observation still holds
        _CASES[r["isa"]] = cases(r["isa"], True)
        for k, (mn, ops) in enumerate(_CASES[r["isa"]]):
            for lay in A.layouts(r["isa"], True):
                render = A.x86_render if r["isa"] == "x86" else A.a64_render
                line, _ = A.render_line(r["isa"], mn, [render(o) for o in ops], lay)
                if line == r["line"]:
                    _, probs = check_line(r["isa"], mn, ops, lay)
                    for pr in probs:
                        print(pr)
                    return 1 if probs else 0
        return 1
    _, bad = _file_work((r["isa"], tuple(r["file_kinds"])))
    for b in bad:
        print(b)
    return 1 if bad else 0
