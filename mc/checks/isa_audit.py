"""C03 part (c): audit of the shipped ISA semantic databases by role probing.

For every instruction X of a vocabulary that is generated per mnemonic family (every mnemonic
that has an entry in osaca/data/isa/x86.yml / aarch64.yml, in every operand-kind combination the
architecture defines for it) and every resource r that X names or uses implicitly - plus one
unrelated register - the three-line kernel

        P_r : writes r                (mov from a register X never touches)
        X
        C_r : reads r                 (mov into a register X never touches)

is analysed by the real parser, ISASemantics and KernelDG.create_DG on a shipped model.  The
expected edges follow from the *architectural* roles of X written down below from the vendor
manuals (not from OSACA's database):

        P -> X  iff X reads r          X -> C  iff X writes r          P -> C  iff X does not write r

With --consider-flag-deps the same is done for the condition flags with a flag-setting producer
and a flag-reading consumer; without it none of these kernels may have a flag edge.  Roles that
the manuals leave open (destination of cmov, bsf/bsr; flags that are 'undefined' after an
instruction) are not probed and are counted as unspecified.  Instructions for which the database
has no entry (directly, via the size-suffix fall-back or via the register form of a memory
instruction) are checked against the documented default rule instead (destination = last operand
in AT&T syntax / first operand on AArch64, everything else is read).
"""
import traceback

from mc import core, drive, dgfam
from mc.ref import regs as RR

_MODELS = {}
_VOC = {}


def cls(isa, name):
    c = RR.class_of(isa, name.lstrip("%").split(".")[0].split("/")[0])
    assert c is not None, name
    return c


class X:
    """one vocabulary instruction with architectural roles"""

    def __init__(self, isa, text, reads=(), writes=(), maybe=(), fr=(), fw=(), fu=(), dst_default=None):
        self.isa = isa
        self.text = text
        self.mn = text.split()[0]
        self.reads = set(reads)
        self.writes = set(writes)
        self.maybe = set(maybe)          # reads the manuals leave open
        self.fr, self.fw, self.fu = set(fr), set(fw), set(fu)
        self.regs = set()                # every register class the text names
        self.default = dst_default       # (reads, writes) under the documented default rule


# ------------------------------------------------------------------------------------------
# x86
# ------------------------------------------------------------------------------------------
X86_MEM = "8(%rsi,%rdi,4)"
X86_MEM_REGS = ("rsi", "rdi")


def _x86(text_mn, ops, implicit_r=(), implicit_w=(), maybe_pos=(), **fl):
    """ops: list of (operand text, role) with role in r, w, rw; a memory operand is written M"""
    reads, writes, maybe = set(), set(), set()
    texts = []
    named = set()
    for k, (t, role) in enumerate(ops):
        if t == "M":
            texts.append(X86_MEM)
            for b in X86_MEM_REGS:
                reads.add(cls("x86", b))
                named.add(cls("x86", b))
            continue
        texts.append(t)
        if t.startswith("%"):
            c = cls("x86", t)
            named.add(c)
            if "r" in role:
                (maybe if k in maybe_pos else reads).add(c)
            if "w" in role:
                writes.add(c)
    for n in implicit_r:
        reads.add(cls("x86", n))
        named.add(cls("x86", n))
    for n in implicit_w:
        writes.add(cls("x86", n))
        named.add(cls("x86", n))
    x = X("x86", (text_mn + " " + ", ".join(texts)).strip(), reads, writes, maybe - reads, **fl)
    x.regs = named
    # default rule: last operand is the destination, everything else (and every address register)
    # is read
    dr, dw = set(), set()
    for k, (t, role) in enumerate(ops):
        last = k == len(ops) - 1 and len(ops) > 1   # a single operand is a source
        if t == "M":
            dr |= {cls("x86", b) for b in X86_MEM_REGS}
        elif t.startswith("%"):
            (dw if last else dr).add(cls("x86", t))
    x.default = (dr, dw)
    return x


CC_X86 = {  # condition -> flags it reads (Intel SDM vol. 1, appendix B)
    "a": "ZC", "nbe": "ZC", "be": "ZC", "na": "ZC",
    "ae": "C", "nb": "C", "nc": "C", "b": "C", "nae": "C", "c": "C",
    "e": "Z", "z": "Z", "ne": "Z", "nz": "Z",
    "g": "ZSO", "nle": "ZSO", "le": "ZSO", "ng": "ZSO",
    "ge": "SO", "nl": "SO", "l": "SO", "nge": "SO",
    "o": "O", "no": "O", "s": "S", "ns": "S", "p": "P", "np": "P", "pe": "P", "po": "P",
}
F5 = {"ZF", "CF", "SF", "OF", "PF"}


def _fl(s):
    return {{"Z": "ZF", "C": "CF", "S": "SF", "O": "OF", "P": "PF"}[c] for c in s}


SSE2 = """addpd addps addsd addss addsubpd addsubps subpd subps subsd subss mulpd mulps mulsd mulss
divsd maxpd maxps maxsd maxss minpd minps minsd minss andpd andps andnpd andnps orpd orps xorpd xorps
unpckhpd unpckhps unpcklpd unpcklps aesdec aesdeclast aesenc aesenclast sha1msg2 sha1nexte
packssdw packsswb packusdw packuswb paddb paddw paddd paddq paddsb paddsw paddusb paddusw pand por
pandn pxor pavgb pavgw pcmpeqb pcmpeqw pcmpeqd pcmpeqq pcmpgtb pcmpgtw pcmpgtd pcmpgtq pmaddubsw
pmaddwd pmaxsb pmaxsw pmaxsd pmaxub pmaxuw pmaxud pminsb pminsw pminsd pminub pminuw pminud pmuldq
pmulhrsw pmulhuw pmulhw pmullw pmuludq psadbw pshufb psignb psignw psignd psllw pslld psllq psraw
psrad psrlw psrld psrlq psubb psubw psubd psubq psubsb psubsw psubusb psubusw punpckhbw punpckhwd
punpckhdq punpckhqdq punpcklbw punpcklwd punpckldq punpcklqdq""".split()
# AVX-512 only in their EVEX form (pmaxsq ...) - the two-operand legacy spelling does not exist
MMX2 = """packssdw packsswb packuswb paddb paddw paddd paddq paddsb paddsw paddusb paddusw pand por
pandn pxor pavgb pavgw pcmpeqb pcmpeqw pcmpeqd pcmpgtb pcmpgtw pcmpgtd pmaddubsw pmaddwd pmaxsw
pmaxub pminsw pminub pmulhrsw pmulhuw pmulhw pmullw pmuludq psadbw pshufb psignb psignw psignd
psllw pslld psllq psraw psrad psrlw psrld psrlq psubb psubw psubd psubq psubsb psubsw psubusb
psubusw punpckhbw punpckhwd punpckhdq punpcklbw punpcklwd punpckldq""".split()
SHIFT_IMM = "psllw pslld psllq psraw psrad psrlw psrld psrlq pslldq psrldq".split()
FMA = ["vf%s%s%s" % (op, order, ty) for op in ("madd", "msub") for order in ("132", "213", "231")
       for ty in ("pd", "ps", "sd", "ss")] + \
      ["vf%s%s%s" % (op, order, ty) for op in ("maddsub", "msubadd")
       for order in ("132", "213", "231") for ty in ("pd", "ps")]


def x86_vocab():
    V = []
    zc = set(F5)
    nocf = F5 - {"CF"}
    for suf, a, b in (("q", "%rbx", "%rcx"), ("l", "%ebx", "%ecx"), ("", "%rbx", "%rcx")):
        for mn, fl in (("add", dict(fw=zc)), ("sub", dict(fw=zc)), ("and", dict(fw=zc)),
                       ("or", dict(fw=zc)), ("xor", dict(fw=zc)),
                       ("adc", dict(fw=zc, fr={"CF"})), ("sbb", dict(fw=zc, fr={"CF"}))):
            m = mn + suf
            V.append(_x86(m, [(a, "r"), (b, "rw")], **fl))
            V.append(_x86(m, [("$3", "r"), (b, "rw")], **fl))
            if suf:
                V.append(_x86(m, [("M", "r"), (b, "rw")], **fl))
                V.append(_x86(m, [(a, "r"), ("M", "rw")], **fl))
                V.append(_x86(m, [("$3", "r"), ("M", "rw")], **fl))
        for mn in ("cmp", "test"):
            m = mn + suf
            V.append(_x86(m, [(a, "r"), (b, "r")], fw=zc))
            V.append(_x86(m, [("$3", "r"), (b, "r")], fw=zc))
            if suf:
                V.append(_x86(m, [(a, "r"), ("M", "r")], fw=zc))
                V.append(_x86(m, [("$3", "r"), ("M", "r")], fw=zc))
                if mn == "cmp":
                    V.append(_x86(m, [("M", "r"), (b, "r")], fw=zc))
        for mn, fl in (("not", {}), ("inc", dict(fw=nocf)), ("dec", dict(fw=nocf)),
                       ("neg", dict(fw=zc))):
            m = mn + suf
            V.append(_x86(m, [(b, "rw")], **fl))
            if suf:
                V.append(_x86(m, [("M", "rw")], **fl))
        for mn in ("sar", "sal", "shl", "shr"):
            m = mn + suf
            V.append(_x86(m, [(b, "rw")], fu=zc))
            V.append(_x86(m, [("$3", "r"), (b, "rw")], fu=zc))
        V.append(_x86("mov" + suf, [(a, "r"), (b, "w")]))
        V.append(_x86("imul" + suf, [(a, "r"), (b, "rw")], fw={"CF", "OF"},
                      fu={"ZF", "SF", "PF"}))
        if suf:
            V.append(_x86("imul" + suf, [("M", "r"), (b, "rw")], fw={"CF", "OF"},
                          fu={"ZF", "SF", "PF"}))
        V.append(_x86("bsf" + suf, [(a, "r"), (b, "rw")], maybe_pos=(1,), fw={"ZF"},
                      fu=F5 - {"ZF"}))
        V.append(_x86("bsr" + suf, [(a, "r"), (b, "rw")], maybe_pos=(1,), fw={"ZF"},
                      fu=F5 - {"ZF"}))
        btsf = dict(fw={"CF"}, fu={"OF", "SF", "PF"})   # ZF is left unchanged
        V.append(_x86("bts" + suf, [(a, "r"), (b, "rw")], **btsf))
        V.append(_x86("bts" + suf, [("$3", "r"), (b, "rw")], **btsf))
        if suf:
            V.append(_x86("bts" + suf, [("$3", "r"), ("M", "rw")], **btsf))
            V.append(_x86("bts" + suf, [(a, "r"), ("M", "rw")], **btsf))
        V.append(_x86("blsr" + suf, [(a, "r"), (b, "w")], fw=F5 - {"PF"}, fu={"PF"}))
        third = "%rdx" if suf != "l" else "%edx"
        V.append(_x86("andn" + suf, [(a, "r"), (b, "r"), (third, "w")], fw=F5 - {"PF"},
                      fu={"PF"}))
        acc = "rax" if suf != "l" else "eax"
        V.append(_x86("cmpxchg" + suf, [(a, "r"), (b, "rw")], implicit_r=[acc], implicit_w=[acc],
                      fw=zc))
        if suf:
            V.append(_x86("cmpxchg" + suf, [(a, "r"), ("M", "rw")], implicit_r=[acc],
                          implicit_w=[acc], fw=zc))
        for cc, fl in CC_X86.items():
            if suf == "" or cc in ("ne", "b", "a", "nge", "g", "le", "s", "po"):
                V.append(_x86("cmov" + cc + suf, [(a, "r"), (b, "rw")], maybe_pos=(1,),
                              fr=_fl(fl)))
            if suf == "q":
                V.append(_x86("cmov" + cc + suf, [("M", "r"), (b, "rw")], maybe_pos=(1,),
                              fr=_fl(fl)))
    V.append(_x86("leaq", [("M", "r"), ("%rcx", "w")]))
    V.append(_x86("lea", [("M", "r"), ("%rcx", "w")]))
    V.append(_x86("pushq", [("%rbx", "r")], implicit_r=["rsp"], implicit_w=["rsp"]))
    V.append(_x86("push", [("%rbx", "r")], implicit_r=["rsp"], implicit_w=["rsp"]))
    V.append(_x86("pushq", [("M", "r")], implicit_r=["rsp"], implicit_w=["rsp"]))
    V.append(_x86("popq", [("%rbx", "w")], implicit_r=["rsp"], implicit_w=["rsp"]))
    V.append(_x86("pop", [("%rbx", "w")], implicit_r=["rsp"], implicit_w=["rsp"]))
    V.append(_x86("pushfq", [], implicit_r=["rsp"], implicit_w=["rsp"], fr=zc))
    for mn, r, w in (("cbtw", "al", ["ax"]), ("cwtl", "ax", ["eax"]), ("cwde", "ax", ["eax"]),
                     ("cltq", "eax", ["rax"]), ("cdqe", "eax", ["rax"]),
                     ("cwtd", "ax", ["dx"]), ("cltd", "eax", ["edx"]),
                     ("cqto", "rax", ["rdx"]), ("cqo", "rax", ["rdx"])):
        V.append(_x86(mn, [], implicit_r=[r], implicit_w=w))
    V.append(_x86("cld", []))
    V.append(_x86("ldmxcsr", [("M", "r")]))
    V.append(_x86("vldmxcsr", [("M", "r")]))
    for mn in SSE2:
        V.append(_x86(mn, [("%xmm4", "r"), ("%xmm5", "rw")]))
    for mn in MMX2:
        V.append(_x86(mn, [("%mm1", "r"), ("%mm2", "rw")]))
    for mn in SHIFT_IMM:
        V.append(_x86(mn, [("$3", "r"), ("%xmm5", "rw")]))
        if not mn.endswith("dq"):
            V.append(_x86(mn, [("$3", "r"), ("%mm2", "rw")]))
    for mn in ("blendvpd", "blendvps"):
        V.append(_x86(mn, [("%xmm4", "r"), ("%xmm5", "rw")], implicit_r=["xmm0"]))
    for mn in ("addpd", "mulsd", "pxor", "paddd", "maxps"):
        # memory source of a form that exists only as register form in the database
        V.append(_x86(mn, [("M", "r"), ("%xmm5", "rw")]))
    V.append(_x86("ptest", [("%xmm4", "r"), ("%xmm5", "r")], fw=zc))
    V.append(_x86("vptest", [("%xmm4", "r"), ("%xmm5", "r")], fw=zc))
    V.append(_x86("vptest", [("%ymm4", "r"), ("%ymm5", "r")], fw=zc))
    for mn in FMA:
        V.append(_x86(mn, [("%xmm4", "r"), ("%xmm5", "r"), ("%xmm6", "rw")]))
        if mn[-2] == "p":
            V.append(_x86(mn, [("%ymm4", "r"), ("%ymm5", "r"), ("%ymm6", "rw")]))
        V.append(_x86(mn, [("M", "r"), ("%xmm5", "r"), ("%xmm6", "rw")]))
    for mn in ("vxorpd", "vxorps"):
        V.append(_x86(mn, [("%xmm4", "r"), ("%xmm5", "r"), ("%xmm6", "w")]))
        V.append(_x86(mn, [("%ymm4", "r"), ("%ymm5", "r"), ("%ymm6", "w")]))
    # dependency-breaking idioms (all operands equal: write without reading) and their
    # look-alikes with only some operands equal (ordinary reads)
    for suf, r in (("q", "%rcx"), ("l", "%ecx")):
        for mn in ("xor", "sub"):
            x = _x86(mn + suf, [(r, "r"), (r, "rw")], fw=zc)
            x.reads = set()
            V.append(x)
    for mn in ("pxor", "xorps", "xorpd"):
        x = _x86(mn, [("%xmm5", "r"), ("%xmm5", "rw")])
        x.reads = set()
        V.append(x)
    for mn in ("vxorps", "vxorpd"):
        x = _x86(mn, [("%ymm5", "r"), ("%ymm5", "r"), ("%ymm5", "w")])
        x.reads = set()
        V.append(x)
        V.append(_x86(mn, [("%ymm4", "r"), ("%ymm5", "r"), ("%ymm4", "w")]))
        V.append(_x86(mn, [("%ymm4", "r"), ("%ymm5", "r"), ("%ymm5", "w")]))
        V.append(_x86(mn, [("%xmm4", "r"), ("%xmm5", "r"), ("%xmm4", "w")]))
    V.append(_x86("vzeroall", [], implicit_w=["ymm4", "ymm0", "ymm15"]))
    x = _x86("vzeroupper", [], implicit_w=["ymm4", "ymm0", "ymm15"])
    x.maybe = set(x.writes)   # the lower halves are kept: whether that is a read is left open
    V.append(x)
    return V


# ------------------------------------------------------------------------------------------
# AArch64
# ------------------------------------------------------------------------------------------
def _a64(mn, ops, wb=False, **fl):
    """ops: list of (text, role); memory operands are given as ('[x20, #8]', 'r'|'w') and their
    registers are read; wb: the base register is written back"""
    reads, writes, named = set(), set(), set()
    texts = []
    for t, role in ops:
        texts.append(t)
        if t.startswith("["):
            inner = t[1:t.index("]")]
            for k, part in enumerate(p.strip() for p in inner.split(",")):
                if part and part[0] in "xw" and part[1:].isdigit():
                    reads.add(cls("aarch64", part))
                    named.add(cls("aarch64", part))
                    if k == 0 and wb:
                        writes.add(cls("aarch64", part))
            continue
        if t.startswith("#") or t.startswith(".") or role == "":
            continue
        c = cls("aarch64", t)
        named.add(c)
        if "r" in role:
            reads.add(c)
        if "w" in role:
            writes.add(c)
    x = X("aarch64", mn + " " + ", ".join(texts), reads, writes, **fl)
    x.regs = named
    # default rule: first operand is the destination (a memory destination writes nothing)
    dr, dw = set(), set()
    for k, (t, role) in enumerate(ops):
        if t.startswith("["):
            inner = t[1:t.index("]")]
            for j, part in enumerate(p.strip() for p in inner.split(",")):
                if part and part[0] in "xw" and part[1:].isdigit():
                    dr.add(cls("aarch64", part))
                    if j == 0 and wb:
                        dw.add(cls("aarch64", part))
        elif t.startswith("#") or t.startswith(".") or role == "":
            continue
        else:
            (dw if k == 0 else dr).add(cls("aarch64", t))
    x.default = (dr, dw)
    return x


CC_A64 = {"eq": "Z", "ne": "Z", "cs": "C", "hs": "C", "cc": "C", "lo": "C", "hi": "ZC", "ls": "ZC",
          "ge": "NV", "lt": "NV", "gt": "NZV", "le": "NZV", "mi": "N", "pl": "N", "vs": "V",
          "vc": "V"}
NZCV = set("NZCV")


def a64_vocab():
    V = []
    for a, b, c in (("x1", "x2", "x3"), ("w1", "w2", "w3")):
        V.append(_a64("add", [(a, "w"), (b, "r"), ("#8", "")]))
        V.append(_a64("sub", [(a, "w"), (b, "r"), ("#8", "")]))
        V.append(_a64("add", [(a, "w"), (b, "r"), (c, "r")]))
        V.append(_a64("mov", [(a, "w"), (b, "r")]))
        for mn in ("adds", "subs", "ands", "bics"):
            V.append(_a64(mn, [(a, "w"), (b, "r"), (c, "r")], fw=NZCV))
            if mn != "bics":
                V.append(_a64(mn, [(a, "w"), (b, "r"), ("#8", "")], fw=NZCV))
        for mn in ("adcs", "sbcs"):
            V.append(_a64(mn, [(a, "w"), (b, "r"), (c, "r")], fw=NZCV, fr={"C"}))
        V.append(_a64("negs", [(a, "w"), (b, "r")], fw=NZCV))
        V.append(_a64("ngcs", [(a, "w"), (b, "r")], fw=NZCV, fr={"C"}))
        for mn in ("tst", "cmp", "cmn"):
            V.append(_a64(mn, [(a, "r"), (b, "r")], fw=NZCV))
            V.append(_a64(mn, [(a, "r"), ("#8", "")], fw=NZCV))
        for cc, fl in CC_A64.items():
            for mn in ("cinc", "cinv", "cneg"):
                if a[0] == "x" or cc in ("ne", "hi", "gt"):
                    V.append(_a64(mn, [(a, "w"), (b, "r"), (cc, "")], fr=set(fl)))
            for mn in ("cset", "csetm"):
                if a[0] == "x" or cc in ("ne", "hi", "gt"):
                    V.append(_a64(mn, [(a, "w"), (cc, "")], fr=set(fl)))
            for mn in ("csel", "csinc", "csinv", "csneg"):
                if a[0] == "x" or cc in ("ne", "hi", "gt"):
                    V.append(_a64(mn, [(a, "w"), (b, "r"), (c, "r"), (cc, "")], fr=set(fl)))
            for mn in ("ccmp", "ccmn"):
                if a[0] == "x" or cc in ("ne", "hi", "gt"):
                    V.append(_a64(mn, [(a, "r"), (b, "r"), ("#4", ""), (cc, "")], fr=set(fl),
                                  fw=NZCV))
                    V.append(_a64(mn, [(a, "r"), ("#3", ""), ("#4", ""), (cc, "")], fr=set(fl),
                                  fw=NZCV))
    for cc, fl in CC_A64.items():
        V.append(_a64("b." + cc, [(".L1", "")], fr=set(fl)))
        V.append(_a64("b" + cc, [(".L1", "")], fr=set(fl)))
    V.append(_a64("b", [(".L1", "")]))
    V.append(_a64("incb", [("x1", "rw")]))
    V.append(_a64("incd", [("x1", "rw")]))
    V.append(_a64("incd", [("x1", "rw"), ("all", ""), ("mul #2", "")]))
    V.append(_a64("incb", [("x1", "rw"), ("all", ""), ("mul #2", "")]))
    for a, b in (("d1", "d2"), ("s1", "s2")):
        V.append(_a64("fcmp", [(a, "r"), (b, "r")], fw=NZCV))
        V.append(_a64("fcmp", [(a, "r"), ("#0.0", "")], fw=NZCV))
    for mn in ("fmla", "fmls", "mla", "mls"):
        sh = "2d" if mn[0] == "f" else "4s"
        V.append(_a64(mn, [("v1." + sh, "rw"), ("v2." + sh, "r"), ("v3." + sh, "r")]))
    for mn in ("fmla", "fmls", "fmad", "fmsb", "mla", "mls"):
        V.append(_a64(mn, [("z1.d", "rw"), ("p2/m", "r"), ("z3.d", "r"), ("z4.d", "r")]))
    for mn in ("smlal", "smlsl", "umlal", "umlsl", "sabal", "uabal"):
        V.append(_a64(mn, [("v1.2d", "rw"), ("v2.2s", "r"), ("v3.2s", "r")]))
        V.append(_a64(mn + "2", [("v1.2d", "rw"), ("v2.4s", "r"), ("v3.4s", "r")]))
    for mn in ("smlalb", "smlalt", "smlslb", "smlslt", "umlalb", "umlalt", "umlslb", "umlslt",
               "sabalb", "sabalt"):
        V.append(_a64(mn, [("z1.d", "rw"), ("z2.s", "r"), ("z3.s", "r")]))
    for mn in ("sadalp", "uadalp"):
        V.append(_a64(mn, [("v1.2d", "rw"), ("v2.4s", "r")]))
    for mn in ("ssra", "srsra", "usra", "ursra"):
        V.append(_a64(mn, [("v1.2d", "rw"), ("v2.2d", "r"), ("#3", "")]))
    for mn in ("ldr", "ldur"):
        V.append(_a64(mn, [("x1", "w"), ("[x20, #8]", "r")]))
        V.append(_a64(mn, [("d1", "w"), ("[x20, #8]", "r")]))
    for mn in ("ldrb", "ldrh", "ldrsb", "ldrsh"):
        V.append(_a64(mn, [("w1", "w"), ("[x20, #8]", "r")]))
    V.append(_a64("ldrsw", [("x1", "w"), ("[x20, #8]", "r")]))
    V.append(_a64("ldr", [("x1", "w"), ("[x20, x21]", "r")]))
    V.append(_a64("ldr", [("x1", "w"), ("[x20, x21, lsl #3]", "r")]))
    V.append(_a64("ldr", [("q1", "w"), ("[x20], #16", "r")], wb=True))
    V.append(_a64("ldr", [("x1", "w"), ("[x20, #16]!", "r")], wb=True))
    V.append(_a64("ldrb", [("w1", "w"), ("[x20], #1", "r")], wb=True))
    for mn in ("ldp", "ldnp"):
        V.append(_a64(mn, [("x1", "w"), ("x2", "w"), ("[x20, #16]", "r")]))
        V.append(_a64(mn, [("q1", "w"), ("q2", "w"), ("[x20, #32]", "r")]))
    V.append(_a64("ldp", [("x1", "w"), ("x2", "w"), ("[x20], #16", "r")], wb=True))
    V.append(_a64("ldp", [("d1", "w"), ("d2", "w"), ("[x20, #16]!", "r")], wb=True))
    for mn in ("str", "stur"):
        V.append(_a64(mn, [("x1", "r"), ("[x20, #8]", "w")]))
        V.append(_a64(mn, [("d1", "r"), ("[x20, #8]", "w")]))
    V.append(_a64("str", [("x1", "r"), ("[x20, x21, lsl #3]", "w")]))
    V.append(_a64("str", [("q1", "r"), ("[x20], #16", "w")], wb=True))
    V.append(_a64("str", [("x1", "r"), ("[x20, #16]!", "w")], wb=True))
    for mn in ("stp", "stnp"):
        V.append(_a64(mn, [("x1", "r"), ("x2", "r"), ("[x20, #16]", "w")]))
        V.append(_a64(mn, [("q1", "r"), ("q2", "r"), ("[x20, #32]", "w")]))
    V.append(_a64("stp", [("x1", "r"), ("x2", "r"), ("[x20], #16", "w")], wb=True))
    V.append(_a64("stp", [("d1", "r"), ("d2", "r"), ("[x20, #-16]!", "w")], wb=True))
    for x in V:
        if "]," in x.text or "]!" in x.text:
            x.wb = True
    return V


# ------------------------------------------------------------------------------------------
# probes
# ------------------------------------------------------------------------------------------
def probes(isa, c):
    """(producer text, consumer text) for register class c; both use only registers no
    vocabulary instruction touches"""
    kind = c[0]
    if isa == "x86":
        if kind == "gpr":
            name = {"A": "rax", "B": "rbx", "C": "rcx", "D": "rdx", "SP": "rsp", "SI": "rsi",
                    "DI": "rdi", "BP": "rbp"}.get(c[1]) or c[1].lower()
            return "movq %%r14, %%%s" % name, "movq %%%s, %%r14" % name
        if kind == "vec":
            return "vmovapd %%ymm14, %%ymm%d" % c[1], "vmovapd %%ymm%d, %%ymm14" % c[1]
        if kind == "mmx":
            return "movq %%mm7, %%mm%d" % c[1], "movq %%mm%d, %%mm7" % c[1]
    else:
        if kind == "gpr":
            return "mov x%d, x14" % c[1], "mov x14, x%d" % c[1]
        if kind == "vec":
            return "mov v%d.16b, v14.16b" % c[1], "mov v14.16b, v%d.16b" % c[1]
        if kind == "pred":
            return "mov p%d.b, p14.b" % c[1], "mov p14.b, p%d.b" % c[1]
    raise core.HarnessError("no probe for %r" % (c,))


UNRELATED = {"x86": ("gpr", "R13"), "aarch64": ("gpr", 13)}
# flag producer that writes every flag, one consumer per flag that reads only that flag; a second
# producer that writes every flag except the carry (x86 inc) tells carry-only readers apart
FLAG_ALL = {"x86": "cmpq %r14, %r15", "aarch64": "cmp x14, x15"}
FLAG_PARTIAL = {"x86": ("incq %r14", {"ZF", "SF", "OF", "PF"})}
FLAG_PROBES = {
    "x86": {"ZF": "cmovne %r14, %r15", "CF": "cmovb %r14, %r15", "SF": "cmovs %r14, %r15",
            "OF": "cmovo %r14, %r15", "PF": "cmovp %r14, %r15"},
    "aarch64": {"Z": "cset x15, ne", "C": "cset x15, cs", "N": "cset x15, mi",
                "V": "cset x15, vs"},
}


# Vocabulary forms that have no ISA entry on the verified tree: the statement assigns them the
# default rule although their architectural roles differ.  Every *other* vocabulary instruction is
# held to its architectural roles even if the database stops deciding it (an entry narrowed or
# lost), because its semantics are shipped today.
DEFAULT_RULE_FORMS = {
    ("x86", "sbb", ("imm", "reg")), ("x86", "neg", ("reg",)), ("x86", "sar", ("imm", "reg")),
    ("x86", "sal", ("imm", "reg")), ("aarch64", "uabal", ("reg", "reg", "reg")),
    ("aarch64", "uabal2", ("reg", "reg", "reg")),
}


def form_sig(isa, ins):
    sig = []
    for o in ins.operands:
        n = type(o).__name__
        sig.append({"RegisterOperand": "reg", "MemoryOperand": "mem",
                    "ImmediateOperand": "imm"}.get(n, n))
    return (isa, stem(isa, ins.mnemonic), tuple(sig))


def db_status(sem, ins):
    """'db' if the ISA database decides the roles of this instruction (directly, through the
    suffix fall-back or through the register form of a memory instruction), else 'default'"""
    isa = sem._isa
    im = sem._isa_model
    names = [ins.mnemonic]
    if isa == "x86" and ins.mnemonic[-1] in sem.GAS_SUFFIXES:
        names.append(ins.mnemonic[:-1])
    if isa == "aarch64" and "." in ins.mnemonic:
        names.append(ins.mnemonic[:ins.mnemonic.index(".")])
    for n in names:
        e = im.get_instruction(n, ins.operands)
        if e is not None:
            return "db", _entry_index(im, e)
    if any(type(o).__name__ == "MemoryOperand" for o in ins.operands):
        regform = sem.substitute_mem_address(ins.operands)
        for n in names[:2] if isa == "x86" else names:
            e = im.get_instruction(n, regform)
            if e is not None:
                return "db", _entry_index(im, e)
    return "default", None


_ENTRY_IDX = {}


def _forms(im):
    return [e for name in sorted(im._data["instruction_forms_dict"])
            for e in im._data["instruction_forms_dict"][name]]


def _entry_index(im, entry):
    t = _ENTRY_IDX.get(id(im))
    if t is None:
        t = _ENTRY_IDX[id(im)] = {id(e): k for k, e in enumerate(_forms(im))}
    return t.get(id(entry))


def edges_of(isa, arch, texts, flags):
    mm, sem = _MODELS[arch]
    parser, kernel = dgfam.parsed_kernel(isa, texts)
    sem.add_semantics(kernel)
    g = drive.graph_only(kernel, parser, mm, sem, flags)
    idx = {k.line_number: i for i, k in enumerate(kernel)}
    got = set()
    for a, b in g.dg.edges():
        if a != int(a) or b != int(b):
            continue
        got.add((idx[a], idx[b]))
    return kernel, got


def audit_case(item):
    isa, arch, vi = item
    x = _VOC[isa][vi]
    out = {"bad": [], "n": 0, "unspec": 0, "status": None, "sig": [], "entry": None}
    try:
        mm, sem = _MODELS[arch]
        parser, kernel = dgfam.parsed_kernel(isa, [x.text])
        status, out["entry"] = db_status(sem, kernel[0])
        out["status"] = status
        reads, writes, maybe = x.reads, x.writes, x.maybe
        pinned_default = status == "default" and form_sig(isa, kernel[0]) in DEFAULT_RULE_FORMS
        if status == "default" and (pinned_default or x.default == (x.reads | x.maybe, x.writes)
                                    or x.default == (x.reads, x.writes)):
            reads, writes = x.default
            maybe = set()
            status = "default-rule"
        resources = sorted(x.regs | reads | writes | {UNRELATED[isa]}, key=repr)
        for c in resources:
            p, q = probes(isa, c)
            for flags in (False, True):
                _, got = edges_of(isa, arch, [p, x.text, q], flags)
                exp = {}
                exp[(0, 1)] = None if c in maybe else (c in reads)
                exp[(1, 2)] = c in writes
                exp[(0, 2)] = c not in writes
                for e, want in sorted(exp.items()):
                    if want is None:
                        out["unspec"] += 1
                        continue
                    out["n"] += 1
                    if want != (e in got):
                        role = {(0, 1): "read", (1, 2): "written", (0, 2): "kept"}[e]
                        out["bad"].append((
                            "register", role, "missing" if want else "spurious", c[0],
                            "%s [%s, flags=%s]: register class %r should %sbe %s by %r "
                            "(kernel %r, edges %r)" % (status, arch, flags, c,
                                                       "" if want else "not ", role, x.text,
                                                       [p, x.text, q], sorted(got))))
                out["sig"].append((c, flags, tuple(sorted(got))))
        p = FLAG_ALL[isa]
        for f, q in sorted(FLAG_PROBES[isa].items()):
            # without --consider-flag-deps: no edge at all between these three lines
            _, got = edges_of(isa, arch, [p, x.text, q], False)
            out["n"] += 1
            if got:
                out["bad"].append(("flag", "off", "spurious", f,
                                   "%s [%s]: edges %r in %r although flag dependencies were not "
                                   "requested" % (status, arch, sorted(got), [p, x.text, q])))
            if status == "default-rule":
                continue   # the default rule knows no flags
            if f in x.fu:
                out["unspec"] += 2
                continue
            _, got = edges_of(isa, arch, [p, x.text, q], True)
            exp = {(1, 2): f in x.fw, (0, 2): f not in x.fw}
            for e, want in sorted(exp.items()):
                out["n"] += 1
                if want != (e in got):
                    role = {(1, 2): "written", (0, 2): "kept"}[e]
                    out["bad"].append((
                        "flag", role, "missing" if want else "spurious", f,
                        "%s [%s, flags=True]: flag %s should %sbe %s by %r (kernel %r, edges %r)"
                        % (status, arch, f, "" if want else "not ", role, x.text,
                           [p, x.text, q], sorted(got))))
            out["sig"].append((f, tuple(sorted(got))))
        if status == "db":
            prods = [(p, None)] + ([FLAG_PARTIAL[isa]] if isa in FLAG_PARTIAL else [])
            for pt, written in prods:
                _, got = edges_of(isa, arch, [pt, x.text], True)
                want = bool(x.fr if written is None else (x.fr & written))
                out["n"] += 1
                if want != ((0, 1) in got):
                    out["bad"].append((
                        "flag", "read", "missing" if want else "spurious",
                        "any" if written is None else "not-carry",
                        "%s [%s, flags=True]: %r reads the flags %s, so it should %sdepend on %r "
                        "(edges %r)" % (status, arch, x.text, sorted(x.fr) or "{}",
                                        "" if want else "not ", pt, sorted(got))))
    except Exception:
        out["bad"].append(("exception", "", "", "", traceback.format_exc()[-1200:]))
    return item, out


def _build():
    _VOC["x86"] = x86_vocab()
    _VOC["aarch64"] = a64_vocab()
    _STEMS.clear()
    _STEMS.update(x.mn for x in _VOC["x86"])


_STEMS = set()


def stem(isa, mn):
    """x86 mnemonic without the size suffix the vocabulary added"""
    if isa == "x86" and mn[-1] in "ql" and mn[:-1] in _STEMS:
        return mn[:-1]
    return mn


def run_part(ctx):
    res = core.Result()
    _build()
    archs = {"x86": ["zen1"], "aarch64": ["tx2"]}
    if ctx.thorough:
        archs = {"x86": drive.shipped_archs("x86"), "aarch64": drive.shipped_archs("aarch64")}
    names = archs["x86"] + archs["aarch64"]
    drive.stage_and_parse(ctx, names + ["isa/x86", "isa/aarch64"])
    for a in names:
        mm = drive.MachineModel(arch=a)
        _MODELS[a] = (mm, drive.ArchSemantics(mm))
    items = []
    for isa in ("x86", "aarch64"):
        texts = set()
        for x in _VOC[isa]:
            texts.add(x.text)
            for c in x.regs | x.reads | x.writes | {UNRELATED[isa]}:
                texts.update(probes(isa, c))
        texts.update(FLAG_PROBES[isa].values())
        texts.add(FLAG_ALL[isa])
        if isa in FLAG_PARTIAL:
            texts.add(FLAG_PARTIAL[isa][0])
        dgfam.warm_parse_cache(isa, sorted(texts))
        for arch in archs[isa]:
            items += [(isa, arch, vi) for vi in range(len(_VOC[isa]))]
    out = core.pmap(audit_case, core.rotate(items, ctx.seed))
    import collections
    st = collections.Counter()
    mn_db = {"x86": set(), "aarch64": set()}
    hit = {"x86": set(), "aarch64": set()}
    for (isa, arch, vi), o in out:
        x = _VOC[isa][vi]
        res.states += 1
        res.traces += 1
        res.transitions += o["n"]
        res.unspecified += o["unspec"]
        res.outcomes.add(hash(tuple(o["sig"])))
        res.nontrivial += 1
        st[(isa, o["status"])] += 1
        if o["status"] == "db":
            mn_db[isa].add(x.mn)
            hit[isa].add(o["entry"])
        for kind, role, what_kind, detail, what in o["bad"]:
            res.violations.append(core.Violation(
                {"part": "isa-audit", "isa": isa, "resource": kind, "role": role,
                 "kind": what_kind, "mnemonic": stem(isa, x.mn), "which": detail},
                "[isa-audit %s] %s" % (isa, what),
                {"part": "isa-audit", "isa": isa, "arch": arch, "vocab_index": vi,
                 "instruction": x.text, "what": what}))
    cov = {}
    for isa in ("x86", "aarch64"):
        sem = _MODELS[archs[isa][0]][1]
        forms = _forms(sem._isa_model)
        missed = ["%s/%d" % (f.mnemonic, len(f.operands)) for k, f in enumerate(forms)
                  if k not in hit[isa]]
        cov[isa] = {"database_entries": len(forms), "entries_decided_some_vocabulary_instruction":
                    len(forms) - len(missed), "entries_not_reached": sorted(set(missed))[:60]}
    res.extra["isa_audit_database_coverage"] = cov
    res.extra["isa_audit"] = {
        "vocabulary": {k: len(v) for k, v in _VOC.items()},
        "status": {"%s/%s" % k: v for k, v in sorted(st.items(), key=repr)},
        "mnemonics_decided_by_database": {k: len(v) for k, v in mn_db.items()},
    }
    res.add_sample({"isa_audit_kernel": ["movq %r14, %rcx", "xorq $3, %rcx", "movq %rcx, %r14"]})
    return res


def replay(ctx, payload):
    r = payload["replay"]
    _build()
    drive.stage_and_parse(ctx, [r["arch"], "isa/x86", "isa/aarch64"])
    mm = drive.MachineModel(arch=r["arch"])
    _MODELS[r["arch"]] = (mm, drive.ArchSemantics(mm))
    vi = r["vocab_index"]
    if _VOC[r["isa"]][vi].text != r["instruction"]:
        vi = [x.text for x in _VOC[r["isa"]]].index(r["instruction"])
    _, o = audit_case((r["isa"], r["arch"], vi))
    for b in o["bad"]:
        print(b)
    return 1 if o["bad"] else 0
