"""C07 - instruction-form lookup is sound and complete for operand kinds."""
import itertools
import os
import traceback

from mc import core, drive, synth
from mc.ref import match as RM

LEVEL = "model_checking"

PERTURB = {
    "x86": ["%r11", "%xmm9", "%ymm9", "%zmm9", "$7", "24(%r12)", ".Lfoo"],
    "aarch64": ["x27", "w27", "d27", "v27.2d", "v27.4s", "z27.d", "p5", "#7", "[x28, #24]",
                ".Lfoo"],
}


def load_plain(path):
    import ruamel.yaml
    y = ruamel.yaml.YAML(typ="safe", pure=True)
    with open(path) as f:
        return y.load(f)


def _count_entries(path):
    n = 0
    with open(path) as f:
        for line in f:
            if line.startswith("- name:") or line.startswith("    - name:") or \
                    line.startswith("  - name:"):
                n += 1
    return n


def names_of(e):
    n = e.get("name")
    return [str(x) for x in n] if isinstance(n, list) else [str(n)]


def expanded_order(entries):
    """(file index, name) of each element of the alias-expanded list: every multi-name entry is
    separated in place, so the expanded list keeps the file order"""
    out = []
    for j, e in enumerate(entries):
        out += [(j, n) for n in names_of(e)]
    return out


def entry_data(e):
    keys = ("latency", "throughput", "port_pressure", "uops", "hidden_operands", "operation",
            "breaks_dependency_on_equal_operands")
    d = {k: e.get(k) for k in keys}
    d["roles"] = [(o.get("source"), o.get("destination")) for o in e.get("operands", [])
                  if isinstance(o, dict)]
    return repr(d)


def instr_text(isa, name, optexts):
    return "%s %s" % (name.lower(), ", ".join(optexts)) if optexts else name.lower()


def _parse(isa, text):
    p = drive.get_parser(isa)
    try:
        f = p.parse_line(text, 1)
    except Exception:
        return None
    if f.mnemonic is None:
        return None
    return f


def sweep_model(item):
    """one shipped file: every entry, instruction synthesised from the entry's own pattern"""
    name, lo, hi, near = item
    out = {"n": 0, "bad": [], "unsynth": 0, "unspec": 0, "self": 0, "earlier": 0,
           "order_same_data": 0, "perturb": 0, "entries": 0, "samples": []}
    try:
        from osaca import utils
        path = utils.find_datafile(name + ".yml")
        plain = load_plain(path)
        isa = plain["isa"].lower()
        entries = plain["instruction_forms"]
        mm = drive.MachineModel(path_to_yaml=path)
        exp_order = expanded_order(entries)
        ident = {}
        per_name = {}
        for pos, (j, n) in enumerate(exp_order):
            per_name.setdefault(n.upper(), []).append(j)
        for n, objs in mm._data["instruction_forms_dict"].items():
            js = per_name.get(n, [])
            if len(js) != len(objs):
                out["bad"].append(("loader", "entries named %s: %d in file, %d loaded"
                                   % (n, len(js), len(objs)), n, None))
                continue
            for o, j in zip(objs, js):
                ident[id(o)] = j
        by_name = {}
        for j, e in enumerate(entries):
            for n in names_of(e):
                by_name.setdefault(n.upper(), []).append(j)
        out["entries"] = len(entries[lo:hi])
        for j, e in enumerate(entries):
            if not lo <= j < hi:
                continue
            pats = e.get("operands") or []
            if not all(isinstance(p, dict) and "class" in p for p in pats):
                out["unsynth"] += 1
                continue
            prob = next((q for q in (RM.pattern_problem(isa, p) for p in pats) if q), None)
            if prob:
                out["bad"].append(("malformed-pattern", "entry #%d (%s): %s - no instruction can "
                                   "ever resolve to it" % (j, names_of(e)[0], prob),
                                   names_of(e)[0], pats))
                continue
            for variant in (0, 1):
                optexts = [RM.synth(isa, p, k, variant) for k, p in enumerate(pats)]
                if any(t is None for t in optexts):
                    out["unsynth"] += 1 if variant == 0 else 0
                    continue
                for mn in names_of(e)[:2]:
                    text = instr_text(isa, mn, optexts)
                    f = _parse(isa, text)
                    if f is None or len(f.operands) != len(pats) or \
                            f.mnemonic.lower() != mn.lower():
                        out["unsynth"] += 1
                        continue
                    kinds = [RM.kind_of(isa, o) for o in f.operands]
                    own = RM.match_operands(isa, pats, kinds)
                    if own is not True:
                        out["unspec"] += 1
                        continue
                    # expected: first entry in file order the reference accepts
                    expj = None
                    unspec = False
                    for j2 in by_name[mn.upper()]:
                        r = RM.match_operands(isa, entries[j2].get("operands") or [], kinds)
                        if r is None:
                            unspec = True
                            break
                        if r:
                            expj = j2
                            break
                    if unspec:
                        out["unspec"] += 1
                        continue
                    out["n"] += 1
                    got = mm.get_instruction(mn, f.operands)
                    gj = ident.get(id(got)) if got is not None else None
                    if len(out["samples"]) < 2:
                        out["samples"].append({"file": name, "entry": j, "instruction": text,
                                               "resolved_entry": gj})
                    if got is None:
                        out["bad"].append((
                            "unknown", "%r is written with exactly the operand kinds entry #%d "
                            "(%s %s) declares but is reported unknown" % (text, j, mn, pats),
                            mn, pats))
                    elif gj != expj:
                        if entry_data(entries[gj]) != entry_data(entries[expj]):
                            out["bad"].append((
                                "wrong-entry", "%r resolves to entry #%d but the first matching "
                                "entry in file order is #%d with different data" % (text, gj, expj),
                                mn, pats))
                        else:
                            out["order_same_data"] += 1
                    elif gj == j:
                        out["self"] += 1
                    else:
                        out["earlier"] += 1
                    # near misses: one operand of another kind, or another operand count
                    if near and variant == 0 and mn == names_of(e)[0]:
                        cands = []
                        for k in range(len(optexts)):
                            for alt in PERTURB[isa]:
                                cands.append(optexts[:k] + [alt] + optexts[k + 1:])
                        cands.append(optexts[:-1])
                        cands.append(optexts + [PERTURB[isa][0]])
                        for ot in cands:
                            t2 = instr_text(isa, mn, ot)
                            f2 = _parse(isa, t2)
                            if f2 is None or f2.mnemonic.lower() != mn.lower():
                                continue
                            k2 = [RM.kind_of(isa, o) for o in f2.operands]
                            if RM.match_operands(isa, pats, k2) is not False:
                                continue
                            out["perturb"] += 1
                            g2 = mm.get_instruction(mn, f2.operands)
                            if g2 is not None and ident.get(id(g2)) == j:
                                out["bad"].append((
                                    "applied-to-other-kind", "entry #%d (%s %s) is applied to %r"
                                    % (j, mn, pats, t2), mn, pats))
    except Exception:
        out["bad"].append(("exception", traceback.format_exc()[-1500:], name, None))
    return item, out


def _pat_sig(pats):
    if pats is None:
        return ""
    s = []
    for p in pats:
        if p.get("class") == "register":
            s.append("reg:%s%s" % (p.get("name", p.get("prefix")), ":" + str(p.get("shape"))
                                   if p.get("shape") else ""))
        elif p.get("class") == "memory":
            s.append("mem:%s/%s/%s/%s" % (p.get("base"), p.get("offset"), p.get("index"),
                                          p.get("scale")))
        else:
            s.append(str(p.get("class")))
    return ",".join(s)


def run(ctx):
    res = core.Result()
    from mc.checks import c07_synth
    res.merge(c07_synth.run_part(ctx))
    small = ["zen1", "n1", "tx2", "isa/x86", "isa/aarch64"]
    names = drive.shipped_archs() + ["isa/x86", "isa/aarch64"]
    drive.stage(ctx, names)
    # one item per slice of 400 entries; near-miss instructions for every entry in the thorough
    # tier, for the small files in the quick tier
    from osaca import utils
    items = []
    for n in names:
        cnt = _count_entries(utils.find_datafile(n + ".yml"))
        for lo in range(0, max(cnt, 1), 400):
            items.append((n, lo, lo + 400, ctx.thorough or n in small))
    out = core.pmap(sweep_model, items, chunk=1)
    out = [(it[0], o) for it, o in out]
    tot = {"self": 0, "earlier": 0, "order_same_data": 0, "unsynth": 0, "perturb": 0,
           "entries": 0}
    for name, o in out:
        res.states += o["n"]
        res.traces += o["n"] + o["perturb"]
        res.transitions += o["n"] + o["perturb"]
        res.nontrivial += o["n"]
        res.unspecified += o["unspec"]
        for k in tot:
            tot[k] += o[k]
        for s in o["samples"]:
            res.add_sample(s)
        res.outcomes |= {(name, "self"), (name, "earlier")}
        for kind, what, mn, pats in o["bad"]:
            regnames = sorted({str(p.get("name")) for p in (pats or [])
                               if p.get("class") == "register" and p.get("name")})
            res.violations.append(core.Violation(
                {"part": "shipped", "kind": kind, "file": name,
                 "entry_register_names": ",".join(regnames),
                 "mem_scale_null": any(p.get("class") == "memory" and p.get("scale") is None
                                       for p in (pats or []))},
                "[%s] %s" % (name, what),
                {"part": "shipped", "file": name, "mnemonic": mn, "pattern": pats, "what": what}))
    res.extra.update({"shipped_" + k: v for k, v in tot.items()})
    res.evaluations = res.traces
    res.rule = ("(a) synthetic models: every (entry operand pattern, instruction operand) pair per "
                "operand position, pairs of pairs for arity 2, duplicate/shadowing entries, mnemonic "
                "case and suffix fall-backs, through ArchSemantics; (b) every entry of shipped model "
                "files: the instruction "
                "synthesised from the entry's own pattern must resolve to the first entry in file "
                "order accepted by the reference matcher, near-miss instructions (one operand of "
                "another kind, one operand more/less; quick: zen1, n1, tx2 and both ISA databases, "
                "thorough: all files) must not resolve to that entry; a pattern field outside its "
                "documented domain makes the entry unreachable and is reported")
    res.assumptions = [
        "reference match relation mc/ref/match.py; combinations the statement does not define "
        "(mask/segment registers, shapeless vector registers, typo patterns) are excluded and counted",
        "entries whose pattern no instruction can be written for are counted as unsynthesisable"]
    return res


def replay(ctx, payload):
    r = payload["replay"]
    if r.get("part") == "shipped":
        drive.stage(ctx, [r["file"]])
        _, o = sweep_model((r["file"], 0, 10 ** 9, True))
        hits = [b for b in o["bad"] if b[2] == r["mnemonic"]]
        for b in hits[:10]:
            print(b[0], b[1])
        return 1 if hits else 0
    from mc.checks import c07_synth
    return c07_synth.replay(ctx, payload)
