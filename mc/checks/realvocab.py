"""Curated vocabulary of real instructions (stub, filled in below)."""
from mc import core


def run_part(ctx, part):
    return core.Result()


def replay(ctx, payload):
    return 0
