"""Curated vocabulary of real x86 / AArch64 instructions with architecturally known operand
roles (written down from the architecture manuals, not read from OSACA's ISA database), used by
C03 part (b): the dependency graph on *shipped* ISA databases and models must be the
read-after-write relation over these roles."""
import itertools
import traceback

from mc import core, drive, dgfam
from mc.ref import dg as RD
from mc.ref import regs as RR

_MODELS = {}
X86_FLAGS = ("CF", "OF", "SF", "ZF", "AF", "PF")


def R(isa, n):
    c = RR.class_of(isa, n.split(".")[0])
    assert c, n
    return c


def F(*names):
    return {("flag", n) for n in names}


def x86_vocab():
    """list of (text, reads, writes, flags_certain) - flags_certain: the flag roles are
    unambiguous in the manual, so the instruction may take part in the flags=True runs"""
    V = []
    allf = F(*X86_FLAGS)
    regs = ["rax", "rbx", "ecx"]
    full = {"rax": "rax", "rbx": "rbx", "ecx": "rcx"}

    def r(n):
        return R("x86", n)

    for a, b in itertools.permutations(regs, 2):
        sa, sb = "%" + a, "%" + b
        suf = "l" if "e" == a[0] or "e" == b[0] else "q"
        if (a[0] == "e") != (b[0] == "e"):
            continue  # mixed widths are not valid operand pairs
        V.append(("mov%s %s, %s" % (suf, sa, sb), {r(a)}, {r(b)}, True))
        V.append(("add%s %s, %s" % (suf, sa, sb), {r(a), r(b)}, {r(b)} | allf, True))
        V.append(("sub%s %s, %s" % (suf, sa, sb), {r(a), r(b)}, {r(b)} | allf, True))
        V.append(("cmp%s %s, %s" % (suf, sa, sb), {r(a), r(b)}, set(allf), True))
        V.append(("imul%s %s, %s" % (suf, sa, sb), {r(a), r(b)}, {r(b)}, False))
        V.append(("xor%s %s, %s" % (suf, sa, sb), {r(a), r(b)}, {r(b)}, False))
        # cmov: OSACA's ISA database models the destination as write-only (the architectural
        # false dependency on the old destination value is not claimed here)
        V.append(("cmovne%s %s, %s" % (suf, sa, sb), {r(a)} | F("ZF"), {r(b)}, True))
    for a in ("rax", "rbx"):
        sa = "%" + a
        V.append(("addq $8, %s" % sa, {r(a)}, {r(a)} | allf, True))
        V.append(("subq $8, %s" % sa, {r(a)}, {r(a)} | allf, True))
        V.append(("incq %s" % sa, {r(a)}, {r(a)} | F("OF", "SF", "ZF", "AF", "PF"), True))
        V.append(("decq %s" % sa, {r(a)}, {r(a)} | F("OF", "SF", "ZF", "AF", "PF"), True))
        V.append(("xorq %s, %s" % (sa, sa), set(), {r(a)}, False))   # zero idiom
        V.append(("shlq $3, %s" % sa, {r(a)}, {r(a)}, False))
        V.append(("leaq 8(%s,%%rcx,8), %%rdx" % sa, {r(a), r("rcx")}, {r("rdx")}, True))
        V.append(("movq (%s), %%rdx" % sa, {r(a)}, {r("rdx")}, True))
        V.append(("movq %%rdx, 64(%s)" % sa, {r(a), r("rdx")}, set(), True))
        V.append(("addq %%rdx, 128(%s)" % sa, {r(a), r("rdx")}, set(allf), True))
    V.append(("jne .L1", F("ZF"), set(), True))
    for x, y, z in (("xmm1", "xmm2", "xmm3"), ("xmm3", "xmm1", "xmm1"), ("ymm1", "ymm2", "ymm2")):
        V.append(("vaddpd %%%s, %%%s, %%%s" % (x, y, z), {r(x), r(y)}, {r(z)}, True))
        V.append(("vfmadd231pd %%%s, %%%s, %%%s" % (x, y, z), {r(x), r(y), r(z)}, {r(z)}, True))
        V.append(("vmulpd %%%s, %%%s, %%%s" % (x, y, z), {r(x), r(y)}, {r(z)}, True))
    V.append(("vxorpd %xmm2, %xmm2, %xmm2", set(), {r("xmm2")}, True))   # zero idiom
    V.append(("vxorpd %xmm1, %xmm2, %xmm3", {r("xmm1"), r("xmm2")}, {r("xmm3")}, True))
    V.append(("vmovapd (%rax), %ymm2", {r("rax")}, {r("ymm2")}, True))
    V.append(("vmovapd %ymm2, 256(%rbx)", {r("rbx"), r("ymm2")}, set(), True))
    V.append(("vaddpd 512(%rax), %xmm1, %xmm2", {r("rax"), r("xmm1")}, {r("xmm2")}, True))
    return V


A64_FLAGS = ("N", "Z", "C", "V")


def a64_vocab():
    V = []

    def r(n):
        return R("aarch64", n)

    nzcv = None  # flag naming of the ISA database is not architectural: flags=False only
    for a, b, c in (("x1", "x2", "x3"), ("x3", "x1", "x1"), ("w1", "w2", "w3")):
        V.append(("mov %s, %s" % (a, b), {r(b)}, {r(a)}, False))
        V.append(("add %s, %s, %s" % (a, b, c), {r(b), r(c)}, {r(a)}, False))
        V.append(("sub %s, %s, %s" % (a, b, c), {r(b), r(c)}, {r(a)}, False))
        V.append(("add %s, %s, #8" % (a, b), {r(b)}, {r(a)}, False))
        V.append(("mul %s, %s, %s" % (a, b, c), {r(b), r(c)}, {r(a)}, False))
        V.append(("madd %s, %s, %s, %s" % (a, b, c, a), {r(a), r(b), r(c)}, {r(a)}, False))
        V.append(("cmp %s, %s" % (a, b), {r(a), r(b)}, set(), False))
    for a, b, c in (("d1", "d2", "d3"), ("d3", "d1", "d1")):
        V.append(("fadd %s, %s, %s" % (a, b, c), {r(b), r(c)}, {r(a)}, False))
        V.append(("fmul %s, %s, %s" % (a, b, c), {r(b), r(c)}, {r(a)}, False))
        V.append(("fmadd %s, %s, %s, %s" % (a, b, c, a), {r(a), r(b), r(c)}, {r(a)}, False))
    V.append(("fadd v1.2d, v2.2d, v3.2d", {r("v2"), r("v3")}, {r("v1")}, False))
    V.append(("fmla v1.2d, v2.2d, v3.2d", {r("v1"), r("v2"), r("v3")}, {r("v1")}, False))
    V.append(("fmla v3.2d, v1.2d, v1.2d", {r("v1"), r("v3")}, {r("v3")}, False))
    for base in ("x2", "x3"):
        V.append(("ldr x1, [%s, #8]" % base, {r(base)}, {r("x1")}, False))
        V.append(("ldr d1, [%s, x4]" % base, {r(base), r("x4")}, {r("d1")}, False))
        V.append(("ldr x1, [%s], #2048" % base, {r(base)}, {r("x1"), r(base)}, False))
        V.append(("ldr q1, [%s, #4096]!" % base, {r(base)}, {r("q1"), r(base)}, False))
        V.append(("str x1, [%s, #16]" % base, {r(base), r("x1")}, set(), False))
        V.append(("str d3, [%s], #1024" % base, {r(base), r("d3")}, {r(base)}, False))
        V.append(("ldp x1, x4, [%s], #512" % base, {r(base)}, {r("x1"), r("x4"), r(base)}, False))
        V.append(("stp x1, x4, [%s, #-256]!" % base, {r(base), r("x1"), r("x4")}, {r(base)},
                  False))
    V.append(("b.ne .L1", set(), set(), False))
    return V


def _wb_set(isa, text, writes):
    """write-back registers: base of a pre/post-indexed access"""
    if isa != "aarch64" or ("]!" not in text and "], #" not in text):
        return set()
    base = text[text.index("[") + 1:].split(",")[0].split("]")[0].strip()
    return {R(isa, base)}


def _kernel_case(item):
    isa, arch, idxs, flags = item
    V = _VOC[isa]
    mm, sem = _MODELS[arch]
    out = {"bad": [], "n": 0, "amb": 0, "sig": None}
    texts_ = [V[i][0] for i in idxs]
    if any(t.startswith("addq %rdx, 128(") and texts_.count(t) > 1 for t in texts_):
        return item, out  # the same read-modify-write twice is a store->load pair (C06 owns it)
    try:
        ris = []
        for i in idxs:
            text, reads, writes, _ = V[i]
            ris.append(RD.RI(text, reads, writes, wb=_wb_set(isa, text, writes), tag=text.split()[0]))
        parser, kernel = dgfam.parsed_kernel(isa, [r.text for r in ris])
        sem.add_semantics(kernel)
        g = drive.graph_only(kernel, parser, mm, sem, flags)
        for r, k in zip(ris, kernel):
            r.lat_exec = float(k.latency_wo_load if k.latency_wo_load is not None else k.latency)
            r.lat = float(k.latency)
        idx = {k.line_number: i for i, k in enumerate(kernel)}
        got = {}
        for a, b, d in g.dg.edges(data=True):
            if a != int(a):
                continue
            got[(idx[a], idx[b])] = float(d["latency"])
        p_idx = float(mm.get("p_index_latency", 1))
        exp = RD.raw_edges(ris, flags, p_idx)
        for e in sorted(set(got) | set(exp)):
            out["n"] += 1
            i, j = e
            if e not in got:
                out["bad"].append(("missing", "no edge %r -> %r" % (ris[i].text, ris[j].text)))
            elif e not in exp:
                out["bad"].append(("spurious", "edge %r -> %r (weight %s) but the consumer reads "
                                   "nothing the producer writes last" % (ris[i].text, ris[j].text,
                                                                        got[e])))
            else:
                if len(exp[e]) > 1:
                    out["amb"] += 1
                # memory forms may carry the full latency when a store-load edge coincides
                if not any(abs(got[e] - w) < 1e-9 for w in exp[e]):
                    out["bad"].append(("weight", "edge %r -> %r weight %s, expected %s"
                                       % (ris[i].text, ris[j].text, got[e], sorted(exp[e]))))
        out["sig"] = tuple(sorted(got))
    except Exception:
        out["bad"].append(("exception", traceback.format_exc()[-1200:]))
    return item, out


_VOC = {}


def run_part(ctx, part):
    res = core.Result()
    _VOC["x86"] = x86_vocab()
    _VOC["aarch64"] = a64_vocab()
    archs = {"x86": ["zen1"], "aarch64": ["tx2"]}
    if ctx.thorough:
        archs = {"x86": drive.shipped_archs("x86"), "aarch64": drive.shipped_archs("aarch64")}
    names = archs["x86"] + archs["aarch64"]
    drive.stage_and_parse(ctx, names + ["isa/x86", "isa/aarch64"])
    for a in names:
        mm = drive.MachineModel(arch=a)
        _MODELS[a] = (mm, drive.ArchSemantics(mm))
    items = []
    for isa in ("x86", "aarch64"):
        V = _VOC[isa]
        dgfam.warm_parse_cache(isa, [v[0] for v in V])
        n = len(V)
        certain = [i for i in range(n) if V[i][3]]
        for k, arch in enumerate(archs[isa]):
            pairs = list(itertools.product(range(n), repeat=2))
            if k > 0:
                pairs = pairs[::7]
            items += [(isa, arch, p, False) for p in pairs]
            if isa == "x86":
                fp = list(itertools.product(certain, repeat=2))
                if k > 0:
                    fp = fp[::7]
                items += [(isa, arch, p, True) for p in fp]
            if k == 0:
                mids = list(range(0, n, 5))
                outer = list(range(0, n, 3))
                items += [(isa, arch, (i, m, j), False) for i in outer for m in mids
                          for j in outer]
    out = core.pmap(_kernel_case, core.rotate(items, ctx.seed))
    for (isa, arch, idxs, flags), o in out:
        res.states += 1
        res.traces += 1
        res.transitions += o["n"]
        res.unspecified += o["amb"]
        res.outcomes.add(hash(o["sig"]))
        if o["sig"]:
            res.nontrivial += 1
        texts = [_VOC[isa][i][0] for i in idxs]
        for kind, what in o["bad"]:
            res.violations.append(core.Violation(
                {"part": "real-vocabulary", "kind": kind, "isa": isa, "flags": flags,
                 "consumer": what.split("->")[-1].strip().strip("'").split()[0]
                 if "->" in what else ""},
                "[%s on %s flags=%s] kernel %r: %s" % (isa, arch, flags, texts, what),
                {"part": "real-vocabulary", "isa": isa, "arch": arch, "idxs": list(idxs),
                 "flags": flags, "kernel": texts, "what": what}))
    res.add_sample({"real_vocabulary_kernel": [_VOC["x86"][1][0], _VOC["x86"][20][0]]})
    res.extra["real_vocabulary_sizes"] = {k: len(v) for k, v in _VOC.items()}
    return res


def replay(ctx, payload):
    r = payload["replay"]
    _VOC["x86"] = x86_vocab()
    _VOC["aarch64"] = a64_vocab()
    drive.stage_and_parse(ctx, [r["arch"], "isa/x86", "isa/aarch64"])
    mm = drive.MachineModel(arch=r["arch"])
    _MODELS[r["arch"]] = (mm, drive.ArchSemantics(mm))
    _, o = _kernel_case((r["isa"], r["arch"], tuple(r["idxs"]), r["flags"]))
    for b in o["bad"]:
        print(b)
    return 1 if o["bad"] else 0
