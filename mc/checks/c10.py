"""C10 - AArch64 parser recovers every line and operand exactly as written."""
import itertools

from mc.checks import c09

LEVEL = "model_checking"
CCODES = ["eq", "ne", "cs", "hs", "cc", "lo", "mi", "pl", "vs", "vc", "hi", "ls", "ge", "lt",
          "gt", "le", "al"]


def a64_pool(thorough):
    nums = range(32) if thorough else (0, 7, 15, 30)
    regs = []
    for p in "xwbhsdq":
        for n in nums:
            if p in "xw" and n == 31:
                continue
            regs.append({"t": "reg", "prefix": p, "num": n})
    regs += [{"t": "reg", "prefix": p.upper(), "num": 3} for p in "xwdq"]
    for alias in ("sp", "wzr", "xzr", "SP", "XZR"):
        regs.append({"t": "reg", "alias": alias})
    vec = []
    for n in (0, 15, 31):
        for lanes, shape in ((2, "d"), (4, "s"), (8, "h"), (16, "b"), (2, "s"), (8, "b"), (4, "h"),
                             (1, "d")):
            vec.append({"t": "reg", "prefix": "v", "num": n, "lanes": lanes, "shape": shape})
        for shape in "bhsd":
            vec.append({"t": "reg", "prefix": "v", "num": n, "shape": shape, "index": 1})
            vec.append({"t": "reg", "prefix": "z", "num": n, "shape": shape})
        vec.append({"t": "reg", "prefix": "v", "num": n, "shape": "s", "index": 0})
        vec.append({"t": "reg", "prefix": "V", "num": n, "lanes": 2, "shape": "D"})
    preds = []
    for n in (0, 7, 15):
        preds.append({"t": "reg", "prefix": "p", "num": n})
        preds.append({"t": "reg", "prefix": "p", "num": n, "pred": "z"})
        preds.append({"t": "reg", "prefix": "p", "num": n, "pred": "m"})
        preds.append({"t": "reg", "prefix": "p", "num": n, "shape": "d"})
        preds.append({"t": "reg", "prefix": "p", "num": n, "shape": "b"})
    lists = []
    v = lambda n, lanes, shape: {"t": "reg", "prefix": "v", "num": n, "lanes": lanes, "shape": shape}
    vs = lambda n, shape: {"t": "reg", "prefix": "v", "num": n, "shape": shape}
    zs = lambda n, shape: {"t": "reg", "prefix": "z", "num": n, "shape": shape}
    lists.append({"t": "reglist", "members": [v(0, 2, "d")], "style": ","})
    lists.append({"t": "reglist", "members": [v(0, 2, "d"), v(1, 2, "d")], "style": ","})
    lists.append({"t": "reglist", "members": [v(4, 4, "s"), v(5, 4, "s"), v(6, 4, "s"), v(7, 4, "s")],
                  "style": ","})
    lists.append({"t": "reglist", "members": [v(4, 4, "s"), v(7, 4, "s")], "range": True,
                  "style": "-"})
    lists.append({"t": "reglist", "members": [v(4, 4, "s"), v(7, 4, "s")], "range": True,
                  "style": " - "})
    lists.append({"t": "reglist", "members": [v(28, 4, "s"), v(31, 4, "s")], "range": True,
                  "style": " - "})
    lists.append({"t": "reglist", "members": [v(30, 2, "d"), v(31, 2, "d")], "range": True,
                  "style": "-"})
    lists.append({"t": "reglist", "members": [zs(29, "d"), zs(31, "d")], "range": True,
                  "style": " - "})
    lists.append({"t": "reglist", "members": [v(0, 16, "b"), v(3, 16, "b")], "range": True,
                  "style": "-"})
    lists.append({"t": "reglist", "members": [v(31, 4, "s")], "style": ","})
    lists.append({"t": "reglist", "members": [zs(0, "d")], "style": ","})
    lists.append({"t": "reglist", "members": [zs(2, "s"), zs(3, "s")], "style": ","})
    for idx in (0, 1, 3):
        lists.append({"t": "reglist", "members": [vs(8, "s")], "style": ",", "index": idx})
        lists.append({"t": "reglist", "members": [vs(8, "s"), vs(9, "s")], "style": ",",
                      "index": idx})
        lists.append({"t": "reglist", "members": [vs(8, "s"), vs(11, "s")], "range": True,
                      "style": " - ", "index": idx})
    imms = []
    for val in (0, 1, -1, 255, -128, 4095, 2 ** 32):
        imms.append({"t": "imm", "v": val})
        imms.append({"t": "imm", "v": val, "hex": True})
        imms.append({"t": "imm", "v": val, "hash": False})
    for txt, fval, ft in (("1.5", 1.5, "double"), ("-0.25", -0.25, "double"),
                          ("2.0e+1", 20.0, "double"), ("1.25e-2", 0.0125, "double"),
                          ("1.0e+0f", 1.0, "float"), ("3.5f", 3.5, "float")):
        imms.append({"t": "imm", "f": txt, "fval": fval, "ftype": ft})
        imms.append({"t": "imm", "f": txt, "fval": fval, "ftype": ft, "hash": False})
    conds = [{"t": "cond", "cc": c} for c in CCODES] + [{"t": "cond", "cc": "NE"}]
    labels = [{"t": "label", "name": n} for n in (".L4", ".LBB0_3", "loop_start", "foo.bar",
                                                  "x264_done", "loop", "w8_tail", "eq_case",
                                                  "sp_adjust", "d0_loop", "vsum", "p1_fix")]
    mems = []
    for base in ("x1", "x30", "sp"):
        mems.append({"t": "mem", "base": base})
        for d, hx in ((8, False), (-8, False), (16, True), (0, False), (4088, False)):
            mems.append({"t": "mem", "base": base, "disp": d, "hex": hx})
            mems.append({"t": "mem", "base": base, "disp": d, "hex": hx, "mode": "pre"})
            mems.append({"t": "mem", "base": base, "disp": d, "hex": hx, "mode": "post"})
        for index in ("x2", "w2", "x29"):
            mems.append({"t": "mem", "base": base, "index": index})
            for ext in ("lsl", "sxtw", "uxtw"):
                for amount in (0, 1, 2, 3, 4):
                    mems.append({"t": "mem", "base": base, "index": index, "ext": ext,
                                 "amount": amount})
            mems.append({"t": "mem", "base": base, "index": index, "ext": "sxtw"})
    # register names in capitals inside a memory operand (the stack pointer alias included)
    for base in ("SP", "X7"):
        mems.append({"t": "mem", "base": base})
        mems.append({"t": "mem", "base": base, "disp": 16, "hex": False})
        mems.append({"t": "mem", "base": base, "disp": 16, "hex": False, "mode": "pre"})
        mems.append({"t": "mem", "base": base, "disp": 16, "hex": False, "mode": "post"})
        mems.append({"t": "mem", "base": base, "index": "X2"})
        mems.append({"t": "mem", "base": base, "index": "x2", "ext": "lsl", "amount": 3})
    return regs, vec, preds, lists, imms, conds, labels, mems


def cases_a64(thorough):
    regs, vec, preds, lists, imms, conds, labels, mems = a64_pool(thorough)
    out = [("ret", []), ("nop", [])]
    first_ok = regs + vec + preds + lists + imms + labels + mems
    for o in first_ok:
        out.append(("op1", [o]))
    out.append(("b.ne", [labels[0]]))
    out.append(("b.lt", [labels[1]]))
    # arity 2: all ordered pairs of a reduced pool, memory operand only in last position
    red_first = regs[::9] + vec[::13] + preds[::4] + lists[::3] + imms[::7]
    red_second = red_first + conds[::5] + labels + mems[::11]
    for a in red_first:
        for b in red_second:
            out.append(("op2", [a, b]))
    # arity 3-5: covering family, memory last
    fix = [regs[1], regs[5], regs[9], regs[13]]
    pool = red_first + conds[::5]
    for n in (3, 4, 5):
        for pos in range(n - 1):
            for o in pool:
                if o["t"] == "cond" and pos == 0:
                    continue
                ops = list(fix[:n - 1])
                ops[pos] = o
                for last in (regs[2], mems[3], mems[40], imms[0], labels[0], labels[4], labels[5],
                             conds[1]):
                    out.append(("op%d" % n, ops + [last]))
    for mn in ("fmla", "ldp", "add", "csel", "fcvtzs", "b.ne", "ld1d", "st1", "fadd.s"):
        out.append((mn, [regs[0], regs[1]]))
    return out


def run(ctx):
    return c09.run_isa(ctx, "aarch64", "C10")


def replay(ctx, payload):
    return c09.replay(ctx, payload, "aarch64")
