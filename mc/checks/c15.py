"""C15 - every shipped model entry is well-formed and can be costed."""
import io
import numbers
import os
import re
import traceback

from mc import core, drive
from mc.ref import match as RM
from mc.checks import c07

LEVEL = "model_checking"


def _num_ok(x):
    return x is None or (isinstance(x, numbers.Real) and not isinstance(x, bool) and x >= 0)


def uops_problem(pp, ports):
    """None if pp is a list of [cycles >= 0, non-empty port collection within ports]"""
    if not isinstance(pp, (list, tuple)):
        return "micro-op list is %r, not a list" % (pp,)
    for u in pp:
        if not isinstance(u, (list, tuple)) or len(u) != 2:
            return "micro-op %r is not a [cycles, ports] pair" % (u,)
        c, pl = u
        if not (isinstance(c, numbers.Real) and not isinstance(c, bool) and c >= 0):
            return "cycles %r of micro-op %r are not a non-negative number" % (c, u)
        if isinstance(pl, str):
            names = list(pl)
        elif isinstance(pl, (list, tuple)):
            names = list(pl)
            if not all(isinstance(n, str) for n in names):
                return "port collection %r of micro-op %r contains a non-name" % (pl, u)
        else:
            return "port collection %r of micro-op %r is neither list nor string" % (pl, u)
        if not names:
            return "micro-op %r has an empty port collection" % (u,)
        for n in names:
            if n not in ports:
                return "port %r of micro-op %r is not in the model's port list" % (n, u)
    return None


def pp_problem(pp, ports):
    if pp is None:
        return None
    if isinstance(pp, dict):
        if not pp:
            return "empty alternatives dict"
        for k, v in pp.items():
            p = uops_problem(v, ports)
            if p:
                return "alternative %r: %s" % (k, p)
        return None
    return uops_problem(pp, ports)


def check_plain(name, plain):
    """well-formedness of the file content as plain YAML; -> list of (kind, what, entry idx)"""
    bad = []
    ports = [str(p) for p in plain.get("ports", [])] if "ports" in plain else None
    isa = str(plain.get("isa")).lower() if plain.get("isa") else None
    n = 0
    # header: a model file is identified by its architecture code (Frontend(path_to_yaml=...) and
    # MachineModel.get_arch() use it); ISA databases carry none
    if ports is not None:
        n += 1
        if not isinstance(plain.get("arch_code"), str) or not plain["arch_code"].strip():
            bad.append(("header", "arch_code is %r: the model cannot name its architecture "
                        "(MachineModel.get_arch() / Frontend(path_to_yaml=...) fail)"
                        % (plain.get("arch_code"),), -1))
    for j, e in enumerate(plain.get("instruction_forms") or []):
        n += 1
        if not isinstance(e, dict) or "name" not in e:
            bad.append(("entry", "entry #%d has no name" % j, j))
            continue
        if ports is not None:
            p = pp_problem(e.get("port_pressure"), ports)
            if p:
                bad.append(("port_pressure", "entry #%d (%s): %s" % (j, e.get("name"), p), j))
        for k in ("throughput", "latency"):
            if not _num_ok(e.get(k)):
                bad.append((k, "entry #%d (%s): %s is %r" % (j, e.get("name"), k, e.get(k)), j))
        ops = e.get("operands")
        if ops is not None and not isinstance(ops, list):
            bad.append(("operands", "entry #%d (%s): operands is %r" % (j, e.get("name"), ops), j))
        elif ops and isa is not None:
            for k, p in enumerate(ops):
                prob = RM.pattern_problem(isa, p)
                if prob:
                    bad.append(("operand-pattern", "entry #%d (%s), operand %d: %s - no instruction "
                                "can ever match this entry" % (j, e.get("name"), k + 1, prob), j))
                    break
    if ports is not None:
        for tab in ("load_throughput", "store_throughput"):
            for r, row in enumerate(plain.get(tab) or []):
                n += 1
                p = uops_problem(row.get("port_pressure"), ports) if isinstance(row, dict) else \
                    "row is not a mapping"
                if p:
                    bad.append((tab, "%s row %d: %s" % (tab, r, p), -1))
                elif isa is not None:
                    pat = {k: v for k, v in row.items() if k not in ("port_pressure", "dst", "src")}
                    pat["class"] = "memory"
                    p = RM.pattern_problem(isa, pat)
                    t = row.get("dst", row.get("src"))
                    regs = RM.X86_REG_CLASSES if isa == "x86" else RM.A64_PREFIXES
                    if p is None and t is not None and str(t).lower() not in regs:
                        p = "register type %r is none of %s" % (t, "/".join(regs))
                    if p:
                        bad.append((tab, "%s row %d: %s - the row can never be selected"
                                    % (tab, r, p), -1))
            d = plain.get(tab + "_default")
            if d is not None:
                n += 1
                p = uops_problem(d, ports)
                if p:
                    bad.append((tab + "_default", "%s_default: %s" % (tab, p), -1))
        ll = plain.get("load_latency") or {}
        for k, v in ll.items():
            if not _num_ok(v):
                bad.append(("load_latency", "load_latency[%s] = %r" % (k, v), -1))
    return bad, n


def expected_dbcheck(plain):
    tot = tp = lt = pp = 0
    for e in plain.get("instruction_forms") or []:
        k = len(c07.names_of(e))
        tot += k
        tp += k if e.get("throughput") is None else 0
        lt += k if e.get("latency") is None else 0
        pp += k if e.get("port_pressure") is None else 0
    return tot, tp, lt, pp


def _dbcheck(name, plain, out):
    from osaca.db_interface import sanity_check
    buf = io.StringIO()
    sanity_check(name, verbose=False, output_file=buf)
    rep = buf.getvalue()
    m = re.findall(r"\((\d+)/(\d+)\) of instruction forms have no (throughput value|"
                   r"latency value|port pressure assignment)", rep)
    got = {k: (int(a), int(b)) for a, b, k in m}
    tot, tp, lt, pp = expected_dbcheck(plain)
    exp = {"throughput value": (tp, tot), "latency value": (lt, tot),
           "port pressure assignment": (pp, tot)}
    out["n"] += 3
    if got != exp:
        out["bad"].append(("db-check", "--db-check reports %r, the file contains %r"
                           % (got, exp), -1))


def work(item):
    name, do_cost, do_dbcheck = item
    out = {"n": 0, "bad": [], "costed": 0, "unsynth": 0, "entries": 0, "sample": None}
    try:
        from osaca import utils
        path = utils.find_datafile(name + ".yml")
        plain = c07.load_plain(path)
        bad, n = check_plain(name, plain)
        out["n"] += n
        out["bad"] += [(k, w, j) for k, w, j in bad]
        entries = plain.get("instruction_forms") or []
        out["entries"] = len(entries)
        is_isa = name.startswith("isa/")
        if not do_cost:
            if do_dbcheck and not is_isa:
                _dbcheck(name, plain, out)
            return item, out
        mm = drive.MachineModel(path_to_yaml=path)
        # the loaded representation carries the same data
        loaded = sum(len(v) for v in mm._data["instruction_forms_dict"].values())
        expanded = sum(len(c07.names_of(e)) for e in entries)
        out["n"] += 1
        if loaded != expanded:
            out["bad"].append(("loader", "%d forms loaded, %d (names x entries) in the file"
                               % (loaded, expanded), -1))
        if is_isa:
            # ISA databases: every entry must be applicable by the semantics layer
            arch = "zen1" if plain["isa"].lower() == "x86" else "tx2"
            from osaca.semantics import ISASemantics
            sem = ISASemantics(plain["isa"].lower(), path_to_yaml=path)
            isa = plain["isa"].lower()
        else:
            isa = plain["isa"].lower()
            sem = drive.ArchSemantics(mm)
            from osaca.frontend import Frontend
            fe = Frontend(path_to_yaml=path)
        bad_idx = {j for _, _, j in bad}
        for j, e in enumerate(entries):
            pats = e.get("operands") or []
            if not all(isinstance(p, dict) and "class" in p for p in pats):
                out["unsynth"] += 1
                continue
            optexts = [RM.synth(isa, p, k, 0) for k, p in enumerate(pats)]
            if any(t is None for t in optexts):
                out["unsynth"] += 1
                continue
            mn = c07.names_of(e)[0]
            text = c07.instr_text(isa, mn, optexts)
            f = c07._parse(isa, text)
            if f is None or f.mnemonic.lower() != mn.lower():
                out["unsynth"] += 1
                continue
            try:
                parser = drive.get_parser(isa)
                kernel = parser.parse_file(text + "\n")
                if is_isa:
                    sem.process(kernel)
                    for k in kernel:
                        sem.get_reg_changes(k)
                else:
                    for fixed in (True, False):
                        kernel = parser.parse_file(text + "\n")
                        sem.add_semantics(kernel)
                        if not fixed:
                            sem.assign_optimal_throughput(kernel)
                            sem.assign_optimal_throughput(kernel)
                        g = drive.KernelDG(kernel, parser, mm, sem)
                        g.get_critical_path()
                        fe.full_analysis(kernel, g, ignore_unknown=True)
                        fe.full_analysis_dict(kernel, g)
                out["costed"] += 1
                out["n"] += 1
                if out["sample"] is None:
                    out["sample"] = {"file": name, "entry": j, "instruction": text}
            except Exception as ex:
                if j in bad_idx:
                    continue  # already reported as malformed
                out["bad"].append(("cost-crash", "entry #%d: analysing %r raises %s: %s"
                                   % (j, text, type(ex).__name__, str(ex)[:200]), j))
        if do_dbcheck and not is_isa:
            _dbcheck(name, plain, out)
    except Exception:
        out["bad"].append(("exception", traceback.format_exc()[-1500:], -1))
    return item, out


def run(ctx):
    res = core.Result()
    all_names = drive.shipped_archs() + ["isa/x86", "isa/aarch64"]
    # zen3: the only shipped model with forms that carry port pressure but throughput 0
    small = ["zen1", "zen3", "n1", "tx2", "a64fx", "tsv110", "a72", "isa/x86", "isa/aarch64"]
    drive.stage(ctx, all_names)
    # parse the ISA databases once, before workers could race on their cache files
    drive.stage_and_parse(ctx, ["isa/x86", "isa/aarch64"])
    items = []
    for n in all_names:
        cost = ctx.thorough or n in small
        dbc = not n.startswith("isa/")
        items.append((n, cost, dbc))
    out = core.pmap(work, items, chunk=1)
    tot = {"entries": 0, "costed": 0, "unsynth": 0}
    for (name, cost, dbc), o in out:
        res.states += o["entries"]
        res.transitions += o["n"]
        res.traces += o["costed"]
        res.nontrivial += o["entries"]
        for k in tot:
            tot[k] += o[k]
        if o["sample"]:
            res.add_sample(o["sample"])
        res.outcomes.add((name, len(o["bad"])))
        for kind, what, j in o["bad"]:
            m = re.search(r"port '([^']*)' of micro-op", what)
            res.violations.append(core.Violation(
                {"kind": kind, "file": name, "bad_port": m.group(1) if m else ""},
                "[%s] %s" % (name, what), {"file": name, "entry": j, "what": what,
                                           "tier": ctx.tier}))
    res.evaluations = res.transitions
    res.extra = tot
    res.extra["files"] = len(all_names)
    res.rule = ("every entry of every non-empty shipped model file and both ISA databases, read as "
                "plain YAML: micro-op lists (and alternatives) [cycles >= 0, non-empty ports within the "
                "port list], throughput/latency absent or >= 0, load/store tables and defaults; one "
                "instruction synthesised per entry is costed through add_semantics + two balancing "
                "passes + KernelDG (quick: 7 small models and both ISA databases; thorough: all); "
                "--db-check counts of every model vs. counts from the plain file")
    res.exhaustive = True
    res.assumptions = ["entries whose operand pattern cannot be written as an instruction are counted "
                       "as unsynthesisable (well-formedness is still checked)"]
    return res


def replay(ctx, payload):
    r = payload["replay"]
    drive.stage(ctx, [r["file"], "isa/x86", "isa/aarch64", "zen1", "tx2"])
    _, o = work((r["file"], True, False))
    hits = [b for b in o["bad"] if b[2] == r["entry"]]
    for b in hits:
        print(b)
    return 1 if hits else 0
