"""C05 - loop-carried dependencies are exactly the cross-iteration dependency cycles."""
import itertools
import traceback

from mc import core, drive, dgfam
from mc.ref import dg as RD
from mc.ref import report as RP

LEVEL = "model_checking"
_FAM = {}
_FE = {}
_ALPHA = {}
_ALPHA5 = {}
FLAG_MN = {"zi", "fw", "fr", "fc"}

CYC_MN = ["opsd", "opbs", "opsb", "opdb", "mv0", "tie", "fw", "fr", "zi", "nodb"]
MEM_MN = ["ldc", "ldcb", "st", "ld", "rmw"]


def setup(ctx, sub="c05"):
    d = ctx.sub(sub)
    from osaca.frontend import Frontend
    _FAM["x86"] = dgfam.Family("x86", d, "x86")
    _FAM["a64"] = dgfam.Family("aarch64", d, "a64")
    _FAM["a64p3"] = dgfam.Family("aarch64", d, "a64p3", p_index_latency=3)
    for name, f in _FAM.items():
        f.load()
        _FE[name] = Frontend(path_to_yaml=f.mm_path)
        pool = "gprA" if f.isa == "x86" else "gpr"
        regs = dgfam.POOLS[f.isa][pool]
        a, w, b = regs  # full, aliasing narrower, unrelated
        combos = [(a, a), (a, b), (b, a), (w, b)]
        alpha = []
        for mn in CYC_MN:
            for ops in combos:
                alpha.append(((mn, ops), f.ri_reg(mn, ops)))
        for mn in MEM_MN:
            # (AArch64 has no read-modify-write instruction with write-back addressing)
            modes = ["off"] if f.isa == "x86" or mn == "rmw" else ["off", "pre", "post"]
            for data, base in ((a, b), (b, a)) if mn != "ld" else ((a, b),):
                for mode in modes:
                    if f.isa == "aarch64" and mn in ("ldc", "ldcb") and not data.startswith("x"):
                        continue
                    alpha.append(((mn, (data, base, mode)), f.ri_mem(mn, data, base, mode)))
        _ALPHA[name] = alpha
        # C05 only (the alphabet above is shared with C04, C14, C16): the three-operand zero
        # idiom with all operands equal and with only the outer ones equal
        if f.isa == "x86":
            trip = [(a, a, a), (a, b, a), (b, a, a), (a, b, b)]
        else:
            trip = [(a, a, a), (a, b, a), (a, a, b), (b, b, a)]
        extra = [(("zi3", ops), f.ri_reg("zi3", ops)) for ops in trip]
        _ALPHA5[name] = alpha + extra
        dgfam.warm_parse_cache(f.isa, [ri.text for _, ri in alpha + extra])


def lcd_observed(kernel, g):
    ln = [k.line_number for k in kernel]
    idx = {l: i for i, l in enumerate(ln)}
    deps = g.get_loopcarried_dependencies()
    obs = []
    for key, v in deps.items():
        members = tuple(sorted((idx[i.line_number], float(lat)) for i, lat in v["dependencies"]))
        obs.append((members, round(float(v["latency"]), 6), key, idx[v["root"].line_number]))
    return obs


def _with_bumps(seq):
    """address tracking view of the family: every register an instruction writes changes by an
    unknown amount, except the write-back of a pre-/post-indexed access (a constant)"""
    out = []
    for r in seq:
        post = dict(r.post_changes)
        for w in r.writes:
            if not RD.is_flag(w) and w not in r.changes and w not in post:
                post[w] = None
        out.append(RD.RI(r.text, r.reads, r.writes, wb=r.wb, lat=r.lat, lat_exec=r.lat_exec,
                         load_node=r.load_node, tag=r.tag, loads=r.loads, stores=r.stores,
                         changes=r.changes, post_changes=post))
    return out


def compare_lcd(fam, fe, ris, kernel, g, flags):
    """-> problems [(kind, what)], n comparisons, skipped (ambiguous weight)"""
    n = len(ris)
    seq2 = list(ris) + list(ris)
    E2w = {e: set(w) for e, w in RD.raw_edges(
        seq2, flags, fam.p_index if fam.p_index is not None else 1.0).items()}
    # store -> load dependencies through provably equal addresses (C06) close cycles as well;
    # register changes are unknown to the register relation (bumps by other instructions are
    # reads and writes of the base register there), so they are derived here
    mem = RD.memdep_edges(_with_bumps(seq2))
    for e, verdict in mem.items():
        i, j = e
        memw = {seq2[i].lat + fam.s2l, seq2[i].lat_exec + fam.s2l}
        if verdict == "required":
            E2w.setdefault(e, set()).update(memw)
        elif verdict == "unspecified":
            E2w.setdefault(e, set()).update(memw)
            if e not in RD.raw_edges(seq2, flags, 1.0):
                E2w[e].add(None)   # the edge may be absent
    obs = lcd_observed(kernel, g)
    got = set((m, l) for m, l, _, _ in obs)
    amb = sorted(e for e, w in E2w.items() if len(w) > 1)
    ncomb = 1
    for e in amb:
        ncomb *= len(E2w[e])
    if ncomb > 256:
        return [], 0, 1, None
    # an edge reached through the data register and through the write-back register (or through
    # a register and through memory) may carry either weight: the report has to agree with one
    # consistent choice for these edges
    exp = None
    for choice in itertools.product(*[sorted(E2w[e], key=lambda x: (x is None, x)) for e in amb]):
        pick = dict(zip(amb, choice))
        E2 = {}
        for e, w in E2w.items():
            v = pick[e] if e in pick else next(iter(w))
            if v is not None:
                E2[e] = v
        cand = RD.lcd_cycles(n, E2)
        if exp is None or cand == got:
            exp = cand
        if cand == got:
            break
    probs = []
    if len(got) != len(obs):
        probs.append(("duplicate", "a cycle is reported more than once: %r" % (obs,)))
    for m, l in sorted(exp - got):
        probs.append(("missing", "cycle over lines %s (edge latencies %s, total %s) not reported"
                      % ([x for x, _ in m], [w for _, w in m], l)))
    for m, l in sorted(got - exp):
        probs.append(("spurious", "reported cycle over lines %s (latencies %s, total %s) is not a "
                      "cross-iteration dependency cycle of the reference relation"
                      % ([x for x, _ in m], [w for _, w in m], l)))
    for m, l, key, root in obs:
        if abs(sum(w for _, w in m) - l) > 1e-9:
            probs.append(("latency", "cycle %s: latency %s != sum of its edges %s" % (key, l, m)))
        exp_key = "-".join(str(kernel[i].line_number) for i, _ in m)
        if key != exp_key or root != m[0][0]:
            probs.append(("key", "cycle key %r / root %r inconsistent with members %r"
                          % (key, root, m)))
    # summary figure and LCD column through the report
    cp = g.get_critical_path()
    text = fe.combined_view(kernel, cp, g.get_loopcarried_dependencies())
    rep = RP.parse("\n" * 0 + text.lstrip("\n"))
    mx = max((l for _, l in exp), default=0.0)
    if rep.summary is None or abs(rep.summary["lcd"] - mx) > 1e-9:
        probs.append(("summary", "LCD figure %r != maximum cycle latency %r"
                      % (rep.summary and rep.summary["lcd"], mx)))
    col = {}
    for i, row in enumerate(rep.rows):
        if row["lcd"] is not None:
            col[i] = float(row["lcd"])
    if exp:
        ok = any(abs(l - mx) < 1e-9 and dict(m) == col for m, l in exp)
        if not ok:
            probs.append(("column", "LCD column %r does not mark the members of a cycle attaining "
                          "the maximum %r (cycles: %r)" % (col, mx, sorted(exp))))
    elif col:
        probs.append(("column", "LCD column %r although there is no cycle" % col))
    if len(obs) >= 2:
        # the list of loop-carried dependencies printed below the table names every cycle
        full = RP.parse(fe.full_analysis(kernel, g, ignore_unknown=True).lstrip("\n"))
        ln = [k.line_number for k in kernel]
        listed = sorted((tuple(sorted(l["members"])), round(float(l["latency"]), 1))
                        for l in full.lcd_list)
        want = sorted((tuple(sorted(ln[i] for i, _ in m)), round(l, 1)) for m, l, _, _ in obs)
        if listed != want:
            probs.append(("list", "the report lists the cycles %r, the analysis found %r"
                          % (listed, want)))
    return probs, len(exp | got) + 2, 0, (tuple(sorted(got)), mx)



def _work(item):
    famname, idxs, start_line = item
    fam = _FAM[famname]
    ris = [_ALPHA5[famname][i][1] for i in idxs]
    out = {"bad": [], "n": 0, "skip": 0, "sig": []}
    has_flag = any(r.tag in FLAG_MN for r in ris)
    for flags in ((True, False) if has_flag else (False,)):
        try:
            kernel, g = dgfam.observe(fam, ris, flags, start_line=start_line)
            probs, n, skip, sig = compare_lcd(fam, _FE[famname], ris, kernel, g, flags)
            out["n"] += n
            out["skip"] += skip
            out["sig"].append(sig)
            for kind, what in probs:
                out["bad"].append((kind, flags, what))
        except Exception:
            out["bad"].append(("exception", flags, traceback.format_exc()[-1200:]))
    return item, out


def _padded_case(item):
    """kernels above the 50-line threshold: the real multi-process search must report the same
    cycles as the reference (roots in the last lines, lengths that do not divide evenly)"""
    famname, idxs, pad, cpu = item
    import osaca.semantics.kernel_dg as kd
    fam = _FAM[famname]
    a, w, b = dgfam.POOLS[fam.isa]["gprA" if fam.isa == "x86" else "gpr"]
    filler = fam.ri_reg("mv0", (b, b))   # writes b from b with latency 0: a cycle of its own
    tail = [_ALPHA[famname][i][1] for i in idxs]
    ris = [filler] * pad + tail
    out = {"bad": [], "n": 0, "skip": 0, "sig": []}
    saved = kd.cpu_count
    try:
        kd.cpu_count = lambda: cpu
        kernel, g = dgfam.observe(fam, ris, False, timeout=-1)
        probs, n, skip, sig = compare_lcd(fam, _FE[famname], ris, kernel, g, False)
        out["n"], out["skip"], out["sig"] = n, skip, [sig]
        out["bad"] = [(kind, False, what) for kind, what in probs]
    except Exception:
        out["bad"].append(("exception", False, traceback.format_exc()[-1200:]))
    finally:
        kd.cpu_count = saved
    return item, out


def _items(ctx):
    items = []
    for famname in _FAM:
        n = len(_ALPHA5[famname])
        L = 3
        if famname == "a64p3":
            rng = [i for i, (k, ri) in enumerate(_ALPHA5[famname]) if k[0] in MEM_MN + ["opbs", "opsd"]]
        else:
            rng = list(range(n))
        for l in (1, 2):
            items += [(famname, t, 0) for t in itertools.product(rng, repeat=l)]
        red = rng if ctx.thorough else rng[::2]
        items += [(famname, t, 0) for t in itertools.product(red, repeat=3)]
        # sparse / large line numbers: kernel cut out of a file at line 1500
        items += [(famname, t, 1499) for t in itertools.product(rng[::3], repeat=2)]
        if ctx.thorough:
            r4 = rng[::4]
            items += [(famname, t, 0) for t in itertools.product(r4, repeat=4)]
    return items


def run(ctx):
    res = core.Result()
    setup(ctx)
    out = core.pmap(_work, core.rotate(_items(ctx), ctx.seed))
    # multi-process search (>= 50 lines) with real worker processes
    pitems = []
    for famname in ("x86", "a64"):
        names = [k for k, (key, ri) in enumerate(_ALPHA[famname])
                 if key[0] in ("opbs", "tie", "opsb")][:6]
        for pad in (47, 48, 49, 50, 51):
            for cpu in ((2, 3, 16) if ctx.thorough else (3, 16)):
                for t in ((names[0], names[1], names[2]), (names[3], names[4], names[0])):
                    pitems.append((famname, t, pad, cpu))
    pout = core.pmap(_padded_case, pitems, chunk=1)
    for (famname, idxs, pad, cpu), o in pout:
        res.states += 1
        res.traces += 1
        res.transitions += o["n"]
        res.nontrivial += 1
        ris = [_ALPHA[famname][i][1] for i in idxs]
        for kind, flags, what in o["bad"]:
            res.violations.append(core.Violation(
                {"kind": kind, "isa": _FAM[famname].isa, "flags": False, "sparse_lines": False,
                 "multi_process": True},
                "[%s %d filler lines + %r, %d workers] %s"
                % (famname, pad, [r.text for r in ris], cpu, what),
                {"family": famname, "idxs": list(idxs), "pad": pad, "cpu": cpu, "what": what}))
    res.extra["multi_process_kernels"] = len(pitems)
    for (famname, idxs, sl), o in out:
        res.states += 1
        res.traces += 1
        res.transitions += o["n"]
        res.unspecified += o["skip"]
        res.outcomes.add(hash(tuple(o["sig"])))
        if any(s and s[0] for s in o["sig"]):
            res.nontrivial += 1
        ris = [_ALPHA5[famname][i][1] for i in idxs]
        for kind, flags, what in o["bad"]:
            res.violations.append(core.Violation(
                {"kind": kind, "isa": _FAM[famname].isa, "flags": flags,
                 "sparse_lines": sl != 0},
                "[%s flags=%s start_line=%d] kernel %r: %s"
                % (famname, flags, sl, [r.text for r in ris], what),
                {"family": famname, "idxs": list(idxs), "start_line": sl,
                 "kernel": [r.text for r in ris], "flags": flags, "what": what}))
    for (famname, idxs, sl), o in out[:1] + out[len(out) // 3: len(out) // 3 + 3]:
        res.add_sample({"family": famname, "kernel": [_ALPHA5[famname][i][1].text for i in idxs],
                        "cycles": [list(s[0]) if s else None for s in o["sig"]]})
    res.evaluations = res.states
    res.rule = ("all kernels of length <=3 (thorough: <=4 over a thinned alphabet) over an alphabet "
                "built to create self-loops, cycles sharing nodes, latency ties, zero-latency "
                "members, flag cycles and write-back cycles; reference = DFS enumeration of "
                "winding-number-1 cycles over the reference RAW relation of two concatenated "
                "iterations; also kernels starting at file line 1500; non-trivial = at least one "
                "cycle")
    res.bounds = {"kernel_length": 4 if ctx.thorough else 3,
                  "alphabet": {k: len(v) for k, v in _ALPHA.items()}}
    res.assumptions = ["reference relation mc/ref/dg.py", "kernels whose reference graph has an "
                       "edge with two admissible weights are skipped (counted as unspecified)"]
    return res


def replay(ctx, payload):
    setup(ctx)
    r = payload["replay"]
    if "pad" in r:
        _, o = _padded_case((r["family"], tuple(r["idxs"]), r["pad"], r["cpu"]))
        for b in o["bad"]:
            print(b)
        return 1 if o["bad"] else 0
    _, o = _work((r["family"], tuple(r["idxs"]), r["start_line"]))
    for b in o["bad"]:
        print(b)
    return 1 if o["bad"] else 0
