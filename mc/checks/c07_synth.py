"""C07 part (a): synthetic models - every (entry operand pattern, instruction operand) pair."""
import itertools
import os
import traceback

from mc import core, drive, synth
from mc.ref import match as RM

_S = {}

PATS = {
    "x86": [
        {"class": "register", "name": "gpr"}, {"class": "register", "name": "xmm"},
        {"class": "register", "name": "ymm"}, {"class": "register", "name": "zmm"},
        {"class": "register", "name": "mm"}, {"class": "register", "name": "*"},
        {"class": "immediate", "imd": "int"}, {"class": "identifier"},
        {"class": "memory", "base": "*", "offset": "*", "index": "*", "scale": "*"},
        {"class": "memory", "base": "gpr", "offset": None, "index": None, "scale": 1},
        {"class": "memory", "base": "gpr", "offset": "imd", "index": None, "scale": 1},
        {"class": "memory", "base": "gpr", "offset": "*", "index": "gpr", "scale": "*"},
        {"class": "memory", "base": "gpr", "offset": "imd", "index": "gpr", "scale": 8},
        {"class": "memory", "base": "gpr", "offset": None, "index": "gpr", "scale": 1},
        {"class": "memory", "base": None, "offset": "imd", "index": "gpr", "scale": 8},
        {"class": "memory", "base": None, "offset": "imd", "index": None, "scale": 1},
        {"class": "memory", "base": "*", "offset": "*", "index": None, "scale": "*"},
        # any index register, but a definite scale
        {"class": "memory", "base": "gpr", "offset": "*", "index": "*", "scale": 1},
        {"class": "memory", "base": "*", "offset": "*", "index": "*", "scale": 8},
    ],
    "aarch64": [
        {"class": "register", "prefix": "x"}, {"class": "register", "prefix": "w"},
        {"class": "register", "prefix": "d"}, {"class": "register", "prefix": "q"},
        {"class": "register", "prefix": "s"}, {"class": "register", "prefix": "*"},
        {"class": "register", "prefix": "v", "shape": "s"},
        {"class": "register", "prefix": "v", "shape": "d"},
        {"class": "register", "prefix": "v", "shape": "*"},
        {"class": "register", "prefix": "z", "shape": "d"},
        {"class": "register", "prefix": "z", "shape": "*"},
        {"class": "register", "prefix": "*", "shape": "*"},
        {"class": "register", "prefix": "p"},
        {"class": "immediate", "imd": "int"}, {"class": "immediate", "imd": "float"},
        {"class": "immediate", "imd": "double"}, {"class": "immediate", "imd": "*"},
        {"class": "identifier"},
        {"class": "condition", "ccode": "eq"}, {"class": "condition", "ccode": "*"},
        {"class": "condition", "ccode": "hs"}, {"class": "condition", "ccode": "cs"},
        {"class": "condition", "ccode": "lo"},
        {"class": "memory", "base": "*", "offset": "*", "index": "*", "scale": "*",
         "pre_indexed": "*", "post_indexed": "*"},
        {"class": "memory", "base": "x", "offset": "*", "index": "*", "scale": "*",
         "pre_indexed": False, "post_indexed": False},
        {"class": "memory", "base": "x", "offset": "imd", "index": None, "scale": 1,
         "pre_indexed": False, "post_indexed": False},
        {"class": "memory", "base": "x", "offset": None, "index": None, "scale": 1,
         "pre_indexed": False, "post_indexed": False},
        {"class": "memory", "base": "x", "offset": "*", "index": None, "scale": 1,
         "pre_indexed": True, "post_indexed": False},
        {"class": "memory", "base": "x", "offset": "*", "index": None, "scale": 1,
         "pre_indexed": False, "post_indexed": True},
        {"class": "memory", "base": "x", "offset": None, "index": "x", "scale": 1,
         "pre_indexed": False, "post_indexed": False},
        {"class": "memory", "base": "x", "offset": None, "index": "x", "scale": 8,
         "pre_indexed": False, "post_indexed": False},
        # any index register, but a definite scale
        {"class": "memory", "base": "x", "offset": "*", "index": "*", "scale": 1,
         "pre_indexed": False, "post_indexed": False},
        {"class": "memory", "base": "x", "offset": "*", "index": "*", "scale": 8,
         "pre_indexed": False, "post_indexed": False},
    ],
}

TEXTS = {
    "x86": ["%rax", "%eax", "%r10d", "%al", "%xmm3", "%ymm3", "%zmm3", "%mm3", "$5", "$-0x10",
            "$0", ".L1", "(%rax)", "8(%rax)", "(%rax,%rbx)", "(%rax,%rbx,8)", "8(%rax,%rbx,8)",
            "8(,%rbx,8)", "16", "-8(%rax,%rbx,1)", "sym(%rax)", "sym(%rax,%rbx,8)"],
    "aarch64": ["x3", "w3", "d3", "q3", "s3", "b3", "h3", "v3.2d", "v3.4s", "v3.d[1]", "z3.d",
                "z3.s", "p3", "p3/m", "#5", "#0", "#0x10", "#1.5", "#1.5e+0f", "label1", "eq", "ne", "hs", "lo", "cs", "cc",
                "[x1]", "[x1, #8]", "[x1, x2]", "[x1, x2, lsl #3]", "[x1, #8]!", "[x1], #8",
                "[sp, #16]", "[x1, sym]"],
}


def _build(ctx):
    d = ctx.sub("c07")
    for isa in ("x86", "aarch64"):
        P = PATS[isa]
        forms = []
        lat = {}
        k = 0
        for i, p in enumerate(P):
            k += 1
            lat[("m%d" % i,)] = float(k)
            forms.append(synth.form("m%d" % i, [p], float(k), 1.0, [[1, ["A"]]]))
        for i, j in itertools.product(range(len(P)), repeat=2):
            k += 1
            forms.append(synth.form("b%dx%d" % (i, j), [P[i], P[j]], float(k), 1.0, [[1, ["A"]]]))
        # shadowing / duplicates / operand count
        R0 = P[0]
        W = {"class": "register", "name": "*"} if isa == "x86" else \
            {"class": "register", "prefix": "*"}
        forms.append(synth.form("sh", [R0], 1001.0, 1.0, [[1, ["A"]]]))
        forms.append(synth.form("sh", [W], 1002.0, 1.0, [[1, ["A"]]]))
        forms.append(synth.form("sh", [R0], 1003.0, 1.0, [[1, ["A"]]]))
        forms.append(synth.form("ar", [R0], 1011.0, 1.0, [[1, ["A"]]]))
        forms.append(synth.form("ar", [R0, R0], 1012.0, 1.0, [[1, ["A"]]]))
        forms.append(synth.form("ar", [], 1010.0, 1.0, [[1, ["A"]]]))
        forms.append(synth.form(["al1", "al2"], [W], 1020.0, 1.0, [[1, ["A"]]]))
        forms.append(synth.form("al2", [R0], 1021.0, 1.0, [[1, ["A"]]]))
        forms.append(synth.form("CaSe", [R0], 1030.0, 1.0, [[1, ["A"]]]))
        forms.append(synth.form("suf", [R0], 1040.0, 1.0, [[1, ["A"]]]))
        forms.append(synth.form("sufq" if isa == "x86" else "suf.ne", [R0], 1041.0, 1.0,
                                [[1, ["A"]]]))
        forms.append(synth.form("fb", [R0], 1050.0, 1.0, [[1, ["A"]]]))
        mm = synth.machine_model(isa, ["A", "B"], forms, arch_code="SYN")
        path = synth.write(os.path.join(d, "mm_%s.yml" % isa), mm)
        isap = synth.write(os.path.join(d, "isa_%s.yml" % isa), synth.isa_db(isa, []))
        m = drive.MachineModel(path_to_yaml=path)
        _S[isa] = dict(mm=m, sem=drive.ArchSemantics(m, path_to_yaml=isap), forms=forms)


_PC = {}


def _parse(isa, text):
    key = (isa, text)
    if key not in _PC:
        p = drive.get_parser(isa)
        try:
            f = p.parse_line(text, 1)
            if f.mnemonic is None:
                f = None
        except Exception:
            f = None
        _PC[key] = f
    return _PC[key]


A64_CC_TEXTS = ("eq", "ne", "hs", "lo", "cs", "cc")


def _kinds(isa, texts, operands):
    """operand kinds; a condition code is taken as *written* (hs and cs are two spellings an
    entry may declare separately), everything else from the parsed operand"""
    ks = [RM.kind_of(isa, o) for o in operands]
    if isa == "aarch64":
        for k, t in zip(ks, texts):
            if t in A64_CC_TEXTS and k.get("k") == "cond":
                k["cc"] = t.upper()
    return ks


def _lookup_row(item):
    """arity 1 and 2 matrix rows through MachineModel.get_instruction"""
    isa, a = item
    S = _S[isa]
    P, T = PATS[isa], TEXTS[isa]
    out = {"n": 0, "bad": [], "unspec": 0, "hits": 0}
    try:
        ta = T[a]
        f = _parse(isa, "mm %s" % ta)
        if f is not None and len(f.operands) == 1:
            kinds = _kinds(isa, [ta], f.operands)
            for i, p in enumerate(P):
                exp = RM.match_operands(isa, [p], kinds)
                if exp is None:
                    out["unspec"] += 1
                    continue
                got = S["mm"].get_instruction("m%d" % i, f.operands)
                out["n"] += 1
                out["hits"] += 1 if got is not None else 0
                if (got is not None) != exp:
                    out["bad"].append(("arity1", "pattern %r vs operand %r (kind %r): matched=%s, "
                                       "reference says %s" % (p, ta, kinds[0], got is not None, exp),
                                       p, kinds))
        for b, tb in enumerate(T):
            f = _parse(isa, "bb %s, %s" % (ta, tb))
            if f is None or len(f.operands) != 2:
                continue
            kinds = _kinds(isa, [ta, tb], f.operands)
            for i, j in itertools.product(range(len(P)), repeat=2):
                exp = RM.match_operands(isa, [P[i], P[j]], kinds)
                if exp is None:
                    out["unspec"] += 1
                    continue
                got = S["mm"].get_instruction("b%dx%d" % (i, j), f.operands)
                out["n"] += 1
                out["hits"] += 1 if got is not None else 0
                if (got is not None) != exp:
                    out["bad"].append(("arity2", "patterns %r vs operands %r, %r: matched=%s, "
                                       "reference says %s" % ([P[i], P[j]], ta, tb,
                                                              got is not None, exp),
                                       P[i], kinds))
    except Exception:
        out["bad"].append(("exception", traceback.format_exc()[-1200:], None, None))
    return item, out


def _semantic_cases(isa):
    """(instruction text, expected latency or None for 'unknown') through ArchSemantics"""
    r = "%rax" if isa == "x86" else "x3"
    v = "%xmm1" if isa == "x86" else "d3"
    cases = [
        ("sh " + r, 1001.0), ("sh " + v, 1002.0),
        ("ar " + r, 1011.0), ("ar %s, %s" % (r, r), 1012.0), ("ar", 1010.0),
        ("ar %s, %s, %s" % (r, r, r), None),
        ("al1 " + r, 1020.0), ("al2 " + r, 1020.0), ("al2 " + v, 1020.0),
        ("case " + r, 1030.0), ("CASE " + r, 1030.0), ("cAsE " + r, 1030.0),
        ("suf " + r, 1040.0), ("SUF " + r, 1040.0),
        ("nosuch " + r, None),
    ]
    if isa == "x86":
        cases += [("sufq " + r, 1041.0), ("sufl " + r, 1040.0), ("sufb " + r, 1040.0),
                  ("sufx " + r, None), ("fbq " + r, 1050.0), ("fbw " + r, 1050.0),
                  ("fbt " + r, 1050.0), ("fbqq " + r, None), ("fbq " + v, None),
                  ("shq " + v, 1002.0)]
    else:
        cases += [("suf.ne " + r, 1041.0), ("suf.eq " + r, 1040.0), ("fb.ne " + r, 1050.0),
                  ("fb.4s " + r, 1050.0), ("fb.ne " + v, None), ("fbx " + r, None),
                  ("sh.ne " + v, 1002.0)]
    return cases


def run_part(ctx):
    res = core.Result()
    _build(ctx)
    items = [(isa, a) for isa in ("x86", "aarch64") for a in range(len(TEXTS[isa]))]
    out = core.pmap(_lookup_row, core.rotate(items, ctx.seed), chunk=1)
    for (isa, a), o in out:
        res.states += o["n"]
        res.traces += o["n"]
        res.transitions += o["n"]
        res.nontrivial += o["hits"]
        res.unspecified += o["unspec"]
        res.outcomes |= {(isa, a, o["hits"] > 0)}
        for kind, what, p, kinds in o["bad"]:
            res.violations.append(core.Violation(
                {"part": "synthetic", "kind": kind, "isa": isa,
                 "pattern_class": (p or {}).get("class"),
                 "operand_kind": (kinds[0]["k"] if kinds else None)},
                "[%s synthetic] %s" % (isa, what),
                {"part": "synthetic", "isa": isa, "text_index": a, "what": what}))
    # mnemonic rules, duplicates, operand count through the real ArchSemantics path
    for isa in ("x86", "aarch64"):
        S = _S[isa]
        for text, exp in _semantic_cases(isa):
            res.states += 1
            res.traces += 1
            res.transitions += 1
            try:
                p = drive.get_parser(isa)
                kernel = p.parse_file(text + "\n")
                S["sem"].add_semantics(kernel)
                ins = kernel[0]
                unknown = "tp_unknown" in ins.flags
                got = None if unknown else float(ins.latency)
                res.outcomes.add((isa, "sem", got))
                if got != exp:
                    res.violations.append(core.Violation(
                        {"part": "synthetic", "kind": "mnemonic-rule", "isa": isa},
                        "[%s synthetic] %r: resolved latency %r, expected %r (None = unknown)"
                        % (isa, text, got, exp),
                        {"part": "synthetic", "isa": isa, "text": text, "expected": exp}))
            except Exception:
                res.violations.append(core.Violation(
                    {"part": "synthetic", "kind": "exception", "isa": isa},
                    "[%s synthetic] %r: %s" % (isa, text, traceback.format_exc()[-800:]),
                    {"part": "synthetic", "isa": isa, "text": text, "expected": exp}))
    res.add_sample({"isa": "x86", "entry_pattern": PATS["x86"][11], "operand": "8(%rax,%rbx,8)",
                    "reference": True})
    res.bounds = {"patterns": {k: len(v) for k, v in PATS.items()},
                  "operand_texts": {k: len(v) for k, v in TEXTS.items()}, "arity": 2}
    return res


def replay(ctx, payload):
    _build(ctx)
    r = payload["replay"]
    if "text_index" in r:
        _, o = _lookup_row((r["isa"], r["text_index"]))
        for b in o["bad"][:10]:
            print(b[0], b[1])
        return 1 if o["bad"] else 0
    S = _S[r["isa"]]
    p = drive.get_parser(r["isa"])
    kernel = p.parse_file(r["text"] + "\n")
    S["sem"].add_semantics(kernel)
    got = None if "tp_unknown" in kernel[0].flags else float(kernel[0].latency)
    print(r["text"], "->", got, "expected", r["expected"])
    return 0 if got == r["expected"] else 1
