"""C04 - critical path is the longest latency-weighted dependency chain."""
import glob
import itertools
import os
import traceback

from mc import core, drive, dgfam
from mc.ref import dg as RD
from mc.checks import c05

LEVEL = "model_checking"
FLAG_MN = c05.FLAG_MN


def graph_of(g):
    """exported graph of the implementation: nodes in a topological order, edges, latencies"""
    nodes = sorted(g.dg.nodes, key=lambda n: (int(n), 0 if n != int(n) else 1))
    edges = {(a, b): float(d["latency"]) for a, b, d in g.dg.edges(data=True)}
    return nodes, edges


def check_cp(kernel, g):
    """-> (problems, n_checks, signature).  The graph under test is the implementation's own."""
    probs = []
    nodes, edges = graph_of(g)
    by_line = {k.line_number: k for k in kernel}
    exec_lat, full_lat = {}, {}
    for k in kernel:
        wo = k.latency_wo_load if k.latency_wo_load is not None else k.latency
        exec_lat[k.line_number] = float(wo)
        full_lat[k.line_number] = float(k.latency)
    own = {int(n): n for n in nodes if n != int(n)}
    le, lf = RD.longest_chain(nodes, edges, exec_lat, full_lat, own)
    cp = g.get_critical_path()
    total = float(sum(x.latency_cp for x in cp))
    n = 0
    # the value must not depend on how often it is asked for (report + YAML output + graph
    # export each evaluate it)
    cp2 = g.get_critical_path()
    total2 = float(sum(x.latency_cp for x in cp2))
    n += 1
    if abs(total2 - total) > 1e-9 or [x.line_number for x in cp2] != [x.line_number for x in cp]:
        probs.append(("repeat", "critical path %.3f on the first evaluation, %.3f on the second"
                      % (total, total2)))
        cp = g.get_critical_path()
        total = float(sum(x.latency_cp for x in cp))
    n += 1
    if total < le - 1e-9 or total > lf + 1e-9:
        probs.append(("value", "critical path %.3f outside [%.3f, %.3f] = longest chain (sum of "
                      "edge latencies + execution / full latency of the last instruction)"
                      % (total, le, lf)))
    n += 1
    mx = max(full_lat.values())
    if total < mx - 1e-9:
        probs.append(("lower-bound", "critical path %.3f < latency %.3f of a single instruction"
                      % (total, mx)))
    # marked instructions form a chain of the graph whose length is the reported total
    lines = [x.line_number for x in cp]
    n += 1
    if lines != sorted(lines) or len(set(lines)) != len(lines):
        probs.append(("chain", "marked lines %r not in program order" % lines))
    chain = 0.0
    ok = True
    for a, b in zip(lines, lines[1:]):
        if (a, b) not in edges:
            probs.append(("chain", "marked lines %d and %d are consecutive on the critical path "
                          "but no dependency links them" % (a, b)))
            ok = False
        else:
            chain += edges[(a, b)]
    if ok and lines:
        first, last = lines[0], lines[-1]
        lead = edges.get((first + 0.1, first), 0.0)
        cands = {round(chain + lead + exec_lat[last], 6), round(chain + exec_lat[last], 6)}
        if len(lines) > 1:
            cands |= {round(chain + lead + full_lat[last], 6), round(chain + full_lat[last], 6)}
        else:
            cands.add(round(full_lat[last], 6))
        n += 1
        if round(total, 6) not in cands:
            probs.append(("sum", "per-line CP latencies add up to %.3f but the marked chain %r has "
                          "length %s" % (total, lines, sorted(cands))))
    return probs, n, (round(total, 3), round(le, 3), round(lf, 3), tuple(lines))


GAPS = {0: None, 1: "after-first", 2: "every-other", 3: "wide"}


def gapped_numbers(n, gap):
    """line numbers of a kernel of n lines: consecutive, one empty line after the first
    instruction, an empty line after every instruction, or growing gaps far into a file"""
    if gap == 1:
        return [1] + [k + 2 for k in range(1, n)]
    if gap == 2:
        return [2 * k + 1 for k in range(n)]
    if gap == 3:
        return [1200 + k * (k + 3) for k in range(n)]
    return None


def _work(item):
    famname, idxs, gap = item
    fam = c05._FAM[famname]
    ris = [c05._ALPHA[famname][i][1] for i in idxs]
    out = {"bad": [], "n": 0, "sig": []}
    has_flag = any(r.tag in FLAG_MN for r in ris)
    if has_flag and gap == 0:
        # two graphs over the same instruction objects (without and with flag dependencies, as a
        # tool holding both would have them): asking one must not change the answer of the other
        try:
            mm, sem = fam.load()
            parser, kernel = dgfam.parsed_kernel(fam.isa, [r.text for r in ris])
            sem.add_semantics(kernel)
            g0 = drive.graph_only(kernel, parser, mm, sem, False)
            g1 = drive.graph_only(kernel, parser, mm, sem, True)
            first = (sum(x.latency_cp for x in g0.get_critical_path()),
                     [x.line_number for x in g0.get_critical_path()])
            other = sum(x.latency_cp for x in g1.get_critical_path())
            again = (sum(x.latency_cp for x in g0.get_critical_path()),
                     [x.line_number for x in g0.get_critical_path()])
            out["n"] += 1
            if again != first:
                out["bad"].append(("interleaved", False, "critical path without flag dependencies "
                                   "%r, after asking the graph with flag dependencies (%.3f) the "
                                   "same graph answers %r" % (first, other, again)))
            # semantics applied once more to the same objects (a second report on a kept graph)
            sem.add_semantics(kernel)
            third = (sum(x.latency_cp for x in g0.get_critical_path()),
                     [x.line_number for x in g0.get_critical_path()])
            out["n"] += 1
            if third != first:
                out["bad"].append(("interleaved", False, "critical path %r, after the semantics "
                                   "were applied to the kernel again: %r" % (first, third)))
        except Exception:
            out["bad"].append(("exception", False, traceback.format_exc()[-1200:]))
    for flags in ((True, False) if has_flag else (False,)):
        try:
            # short kernels go through the real constructor (which also runs the loop-carried
            # search before anyone asks for the critical path), the others build the graph only
            kernel, g = dgfam.observe(fam, ris, flags, full=(len(ris) <= 2),
                                      line_numbers=gapped_numbers(len(ris), gap))
            probs, n, sig = check_cp(kernel, g)
            if gap == 0 and any(r.tag == "mv0" for r in ris):
                # the report marks exactly the instructions of the critical path - also those
                # that contribute a latency of zero
                from mc.ref import report as RP
                cp = g.get_critical_path()
                text = c05._FE[famname].combined_view(kernel, cp, {})
                rep = RP.parse(text.lstrip("\n"))
                marked = [row["line_number"] for row in rep.rows if row["cp"] is not None]
                n += 1
                if marked != [x.line_number for x in cp]:
                    probs.append(("report-marks", "the report marks lines %r in its CP column, "
                                  "the critical path is %r" % (marked,
                                                               [x.line_number for x in cp])))
            out["n"] += n
            out["sig"].append(sig)
            for kind, what in probs:
                out["bad"].append((kind, flags, what))
        except Exception:
            out["bad"].append(("exception", flags, traceback.format_exc()[-1200:]))
    return item, out


# ------------------------------------------------------------------------------------------
# shipped example and test kernels on shipped models

def shipped_kernels():
    """[(path, isa)] of kernels that parse with the ISA's parser"""
    out = []
    ex = os.path.join(core.REPO, "examples")
    for p in sorted(glob.glob(os.path.join(ex, "*", "*.s"))):
        b = os.path.basename(p)
        isa = "aarch64" if any(t in b for t in (".tx2.", ".a64fx.", ".n1.", ".tsv110.", ".m1.")) \
            else "x86"
        out.append((p, isa))
    tf = os.path.join(core.REPO, "tests", "test_files")
    for b, isa in (("kernel_x86.s", "x86"), ("kernel_x86_memdep.s", "x86"),
                   ("kernel_aarch64.s", "aarch64"), ("kernel_aarch64_memdep.s", "aarch64"),
                   ("kernel_aarch64_sve.s", "aarch64"), ("kernel_aarch64_deps.s", "aarch64"),
                   ("triad_x86_iaca.s", "x86"), ("triad_arm_iaca.s", "aarch64")):
        out.append((os.path.join(tf, b), isa))
    return out


_MODELS = {}


def _work_shipped(item):
    path, isa, arch = item
    out = {"bad": [], "n": 0, "sig": None}
    try:
        from osaca.semantics import reduce_to_section
        mm, sem = _MODELS[arch]
        parser = drive.get_parser(isa)
        with open(path) as f:
            code = f.read()
        kernel = reduce_to_section(parser.parse_file(code), isa)
        sem.add_semantics(kernel)
        g = drive.KernelDG(kernel, parser, mm, sem, timeout=10)
        probs, n, sig = check_cp(kernel, g)
        out["n"] = n
        out["sig"] = sig
        for kind, what in probs:
            out["bad"].append((kind, False, what))
    except Exception:
        out["bad"].append(("exception", False, traceback.format_exc()[-1200:]))
    return item, out


# ------------------------------------------------------------------------------------------
# real instructions on shipped models: memory forms composed from the register form (a load
# stage of their own in the graph), read-modify-write of a location that is loaded again

REAL = {
    "x86": ["addq $1, (%rdx)", "subq %rcx, 8(%rsi)", "movq (%rdx), %rax", "movq 8(%rsi), %rbx",
            "addq %rax, %rcx", "vaddpd (%rdx), %ymm3, %ymm4", "movq %rcx, (%rdx)",
            "imulq (%rdx), %rcx"],
    "aarch64": ["ldr x2, [x1], #16", "ldr x4, [x1]", "add x3, x2, x4", "str x3, [x1]",
                "ldr d0, [x1, #8]", "fadd d1, d0, d0", "str d1, [x1, #8]"],
}
REAL_ARCHS = {"x86": ["zen3", "icx", "hsw"], "aarch64": ["tx2", "a64fx"]}


def _work_real(item):
    arch, isa, idxs = item
    texts = [REAL[isa][i] for i in idxs]
    out = {"bad": [], "n": 0, "sig": None}
    try:
        mm, sem = _MODELS[arch]
        parser, kernel = dgfam.parsed_kernel(isa, texts)
        sem.add_semantics(kernel)
        g = drive.KernelDG(kernel, parser, mm, sem, timeout=-1)
        probs, n, sig = check_cp(kernel, g)
        # "a leading memory-load stage counted once": an instruction whose load stage is a node
        # of its own hands its result on after its execution latency (plus the forwarding
        # penalty through memory, or after the index latency for a written-back base register)
        nodes, edges = graph_of(g)
        s2l = float(mm.get("store_to_load_forward_latency", 0) or 0)
        p_idx = float(mm.get("p_index_latency", 1) or 0)
        for k in kernel:
            ln = k.line_number
            if (ln + 0.1, ln) not in edges or k.latency_wo_load is None:
                continue
            wo = float(k.latency_wo_load)
            for (a, b), w in edges.items():
                if a != ln:
                    continue
                n += 1
                if not any(abs(w - x) < 1e-9 for x in (wo, wo + s2l, p_idx, p_idx + s2l)):
                    probs.append(("load-stage-twice", "line %d has a load stage of its own (%.1f) "
                                  "and execution latency %.1f, its edge to line %s weighs %.1f"
                                  % (ln, edges[(ln + 0.1, ln)], wo, b, w)))
        out["n"], out["sig"] = n, sig
        for kind, what in probs:
            out["bad"].append((kind, False, what))
    except Exception:
        out["bad"].append(("exception", False, traceback.format_exc()[-1200:]))
    return item, out


def run(ctx):
    res = core.Result()
    c05.setup(ctx, "c04")
    items = []
    for famname in c05._FAM:
        n = len(c05._ALPHA[famname])
        rng = list(range(n))
        for l in (1, 2):
            items += [(famname, t, 0) for t in itertools.product(rng, repeat=l)]
        red = rng if ctx.thorough else rng[::2]
        items += [(famname, t, 0) for t in itertools.product(red, repeat=3)]
        if ctx.thorough:
            items += [(famname, t, 0) for t in itertools.product(rng[::4], repeat=4)]
        # the same with empty lines inside the region (line numbers increasing, not consecutive)
        for gap in (1, 2, 3):
            items += [(famname, t, gap) for t in itertools.product(rng, repeat=2)]
            r3 = rng[::2] if ctx.thorough else rng[::4]
            items += [(famname, t, gap) for t in itertools.product(r3, repeat=3)]
            items += [(famname, t, gap) for t in itertools.product(rng[::5], repeat=4)]
    out = core.pmap(_work, core.rotate(items, ctx.seed))
    for (famname, idxs, gap), o in out:
        res.states += 1
        res.traces += 1
        res.transitions += o["n"]
        res.outcomes.add(hash(tuple(o["sig"])))
        if any(s and len(s[3]) > 1 for s in o["sig"]):
            res.nontrivial += 1
        ris = [c05._ALPHA[famname][i][1] for i in idxs]
        for kind, flags, what in o["bad"]:
            res.violations.append(core.Violation(
                {"kind": kind, "part": "synthetic", "isa": c05._FAM[famname].isa,
                 "line_numbers": GAPS[gap] or "consecutive"},
                "[%s flags=%s line numbers %s] kernel %r: %s"
                % (famname, flags, gapped_numbers(len(ris), gap) or "consecutive",
                   [r.text for r in ris], what),
                {"part": "synthetic", "family": famname, "idxs": list(idxs), "gap": gap,
                 "kernel": [r.text for r in ris], "flags": flags, "what": what}))
    for (famname, idxs, gap), o in out[100:102] + out[len(out) // 2: len(out) // 2 + 2]:
        res.add_sample({"family": famname,
                        "kernel": [c05._ALPHA[famname][i][1].text for i in idxs],
                        "(cp, L_exec, L_full, marked lines)": o["sig"]})
    # shipped kernels
    archs_x86 = ["zen1", "zen2"] if not ctx.thorough else drive.shipped_archs("x86")
    archs_a64 = ["tx2", "n1"] if not ctx.thorough else drive.shipped_archs("aarch64")
    names = archs_x86 + archs_a64
    drive.stage_and_parse(ctx, names + ["isa/x86", "isa/aarch64"])
    for a in names:
        mm = drive.MachineModel(arch=a)
        _MODELS[a] = (mm, drive.ArchSemantics(mm))
    sitems = []
    for path, isa in shipped_kernels():
        for a in (archs_x86 if isa == "x86" else archs_a64):
            sitems.append((path, isa, a))
    sout = core.pmap(_work_shipped, sitems, chunk=2)
    for (path, isa, arch), o in sout:
        res.states += 1
        res.traces += 1
        res.transitions += o["n"]
        res.nontrivial += 1
        res.outcomes.add(o["sig"])
        for kind, flags, what in o["bad"]:
            res.violations.append(core.Violation(
                {"kind": kind, "part": "shipped", "isa": isa},
                "[%s on %s] %s" % (os.path.relpath(path, core.REPO), arch, what),
                {"part": "shipped", "path": path, "isa": isa, "arch": arch, "what": what}))
    # real instructions
    rnames = [a for v in REAL_ARCHS.values() for a in v if a not in _MODELS]
    drive.stage_and_parse(ctx, rnames)
    for a in rnames:
        mm = drive.MachineModel(arch=a)
        _MODELS[a] = (mm, drive.ArchSemantics(mm))
    ritems = [(a, isa, t) for isa in REAL for a in REAL_ARCHS[isa]
              for L in (1, 2, 3) for t in itertools.product(range(len(REAL[isa])), repeat=L)]
    rout = core.pmap(_work_real, ritems)
    for (arch, isa, idxs), o in rout:
        res.states += 1
        res.traces += 1
        res.transitions += o["n"]
        res.nontrivial += 1 if o["sig"] and len(o["sig"][3]) > 1 else 0
        res.outcomes.add(o["sig"])
        for kind, flags, what in o["bad"]:
            res.violations.append(core.Violation(
                {"kind": kind, "part": "real", "isa": isa},
                "[%r on %s] %s" % ([REAL[isa][i] for i in idxs], arch, what),
                {"part": "real", "arch": arch, "isa": isa, "idxs": list(idxs), "what": what}))
    if sout:
        (path, isa, arch), o = sout[0]
        res.add_sample({"kernel_file": os.path.relpath(path, core.REPO), "arch": arch,
                        "(cp, L_exec, L_full, marked lines)": o["sig"]})
    res.evaluations = res.states
    res.extra = {"shipped_kernel_model_pairs": len(sitems),
                 "real_instruction_kernels": len(ritems)}
    res.rule = ("all kernels <=3 (thorough <=4) over the C05 alphabet (zero-latency instruction, "
                "latency ties, chains starting at a separately modelled load, chains ending in the "
                "most expensive instruction, no dependency at all) on synthetic models, plus every "
                "shipped example and test kernel on shipped models of its ISA (quick: 2 per ISA), plus all "
                "kernels <=3 over real instructions with composed memory forms on five shipped "
                "models (load stage counted once); "
                "independent longest-path DP on the implementation's exported graph; non-trivial = "
                "critical path with >= 2 instructions")
    res.bounds = {"kernel_length": 4 if ctx.thorough else 3}
    res.assumptions = [
        "the statement leaves open whether the last instruction's own load stage counts when the "
        "chain enters through a register: any value in [L_exec, L_full] is accepted",
        "graph under test is the implementation's own dependency graph (C03 owns its correctness)"]
    return res


def replay(ctx, payload):
    r = payload["replay"]
    if r["part"] == "synthetic":
        c05.setup(ctx, "c04")
        _, o = _work((r["family"], tuple(r["idxs"]), r.get("gap", 0)))
    else:
        drive.stage_and_parse(ctx, [r["arch"], "isa/x86", "isa/aarch64"])
        mm = drive.MachineModel(arch=r["arch"])
        _MODELS[r["arch"]] = (mm, drive.ArchSemantics(mm))
        if r["part"] == "real":
            _, o = _work_real((r["arch"], r["isa"], tuple(r["idxs"])))
        else:
            _, o = _work_shipped((r["path"], r["isa"], r["arch"]))
    for b in o["bad"]:
        print(b)
    print(o["sig"])
    return 1 if o["bad"] else 0
