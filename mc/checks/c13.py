"""C13 - text report, machine-readable output and totals agree."""
import io
import os
import traceback

from mc import core, drive
from mc.ref import report as RP

LEVEL = "model_checking"
_DIR = {}
_EXPECT_ROWS = {}   # generated marked files: number of lines between the markers
DEFAULT = {"x86": "spr", "aarch64": "v2"}


def _gen_kernels(d):
    """generated kernels: path, isa, marked?"""
    out = []

    def w(name, lines, isa):
        p = os.path.join(d, name)
        with open(p, "w") as f:
            f.write("\n".join(lines) + "\n")
        out.append((p, isa))
        return p

    x = ["vaddpd %xmm0, %xmm1, %xmm1", "vmulpd %xmm1, %xmm2, %xmm3", "addq $8, %rax",
         "cmpq %rbx, %rax", "jne .L1"]
    a = ["fadd v1.2d, v1.2d, v0.2d", "fmul v3.2d, v1.2d, v2.2d", "add x3, x3, #16", "cmp x3, x4",
         "b.ne .L2"]
    w("x86_unknown.s", x[:2] + ["frobnicate %xmm1, %xmm2", "nosuchop %rax"] + x[2:], "x86")
    w("a64_unknown.s", a[:2] + ["frobnicate v1.2d, v2.2d"] + a[2:], "aarch64")
    w("x86_zero_pressure.s", ["vmovaps %xmm1, %xmm2", "vxorpd %xmm0, %xmm0, %xmm0"] + x, "x86")
    w("x86_zero_lat_lcd.s", ["vmovaps %xmm1, %xmm0", "vaddpd %xmm0, %xmm2, %xmm1"], "x86")
    w("x86_tp_missing_only.s", ["sqrtsd %xmm1, %xmm2", "vaddpd %xmm2, %xmm3, %xmm3"], "x86")
    w("x86_tp_missing_mixed.s", ["sqrtsd %xmm1, %xmm2", "nosuchop %rax",
                                 "vaddpd %xmm2, %xmm3, %xmm3"], "x86")
    w("x86_nolcd.s", ["vmulpd %xmm0, %xmm1, %xmm2", "vmulpd %xmm0, %xmm1, %xmm3"], "x86")
    w("a64_nolcd.s", ["fmul v2.2d, v0.2d, v1.2d", "fmul v3.2d, v0.2d, v1.2d"], "aarch64")
    w("x86_several_lcd.s", ["addq $1, %rax", "addq $1, %rbx", "vaddpd %xmm0, %xmm1, %xmm1",
                            "vmulpd %xmm2, %xmm3, %xmm3", "subq $1, %rcx"], "x86")
    w("x86_sum10.s", ["vaddpd %%xmm0, %%xmm1, %%xmm%d" % (2 + i % 8) for i in range(24)], "x86")
    w("x86_sum100_len250.s", ["vaddpd %%xmm0, %%xmm1, %%xmm%d" % (2 + i % 8) for i in range(250)],
      "x86")
    w("a64_sum10.s", ["fadd v%d.2d, v0.2d, v1.2d" % (2 + i % 8) for i in range(30)], "aarch64")
    w("x86_len101.s", ["addq $1, %%r%d" % (8 + i % 8) for i in range(101)], "x86")
    w("x86_len100.s", ["addq $1, %%r%d" % (8 + i % 8) for i in range(100)], "x86")
    w("a64_len101.s", ["add x%d, x%d, #1" % (i % 8, i % 8) for i in range(101)], "aarch64")
    # more than 100 lines, fewer than 100 of them instructions (labels, directives, comments
    # are lines of the kernel too) - and just below the threshold
    mixed = []
    for i in range(40):
        mixed += [".Lm%d:" % i, "addq $1, %%r%d" % (8 + i % 8), "# note %d" % i]
    w("x86_len120_mixed.s", mixed, "x86")
    w("x86_len99_mixed.s", mixed[:99], "x86")
    # marked kernels inside files of more than 100 lines; instruction mixes on which a guess of
    # the ISA from the text goes wrong (x86 integer code with hex immediates, AArch64 without
    # x/w registers): without --arch the other ISA has to be tried, and the markers still count
    from mc.checks import c11
    xb = ["addq $0x10, %r8", "subq $0x20, %r9", "addq %r8, %r10", "addq $0x1, %r11",
          "cmpq $0x100, %r11", "jne .L9"]
    ab = ["fadd v1.2d, v1.2d, v0.2d", "fmul v3.2d, v1.2d, v2.2d", "fadd d4, d4, d5",
          "fmla v6.2d, v1.2d, v3.2d"]
    for name, isa, body, fill in (("x86_hex_marked_in_long_file.s", "x86", xb, "addq $0x8, %r12"),
                                  ("a64_fp_marked_in_long_file.s", "aarch64", ab,
                                   "fadd d7, d7, d8")):
        lines = [fill] * 3 + c11.marker(isa, "start", "one") + body + \
            c11.marker(isa, "end", "one") + [fill] * 110
        w(name, lines, isa)
        _EXPECT_ROWS[name] = len(body)
    return out


def corpus(ctx):
    from mc.checks import c04
    ks = c04.shipped_kernels()
    if not ctx.thorough:
        pick = ("update.s.zen.gcc.s", "sum_reduction.s.csx.icc.s", "gs.s.csx.icc.s",
                "update.s.tx2.clang.s", "sum_reduction.s.tx2.gcc.s", "kernel_x86.s",
                "kernel_x86_memdep.s", "kernel_aarch64.s", "kernel_aarch64_memdep.s",
                "triad_x86_iaca.s")
        ks = [k for k in ks if os.path.basename(k[0]) in pick]
    return ks + _gen_kernels(_DIR["d"])


def _decimals(s):
    return len(s.split(".")[1]) if "." in s else 0


def _cell_ok(raw, val):
    """text cell raw (string, maybe empty) vs dict value"""
    if raw == "":
        return abs(float(val)) < 0.005 + 1e-12
    try:
        shown = float(raw)
    except ValueError:
        return False
    return abs(shown - float(val)) <= 0.5 * 10 ** (-_decimals(raw)) + 1e-9


def check_case(item):
    path, isa, arch, fixed, ign = item
    bad = []
    n = 0
    try:
        from osaca import osaca as cli
        import ruamel.yaml
        args = drive.cli_args(path, arch=arch, fixed=fixed, ignore_unknown=ign, timeout=-1)
        args.yaml_out = io.StringIO()
        out = io.StringIO()
        try:
            cli.run(args, output_file=out)
        finally:
            args.file.close()
        text = out.getvalue()
        d = ruamel.yaml.YAML(typ="unsafe", pure=True).load(args.yaml_out.getvalue())
        r = RP.parse(text)
        ports = list(d["Target"]["Ports"])
        n += 1
        if r.ports != [str(p) for p in ports]:
            bad.append(("ports", "port columns %r != Target.Ports %r" % (r.ports, ports)))
            return item, (n, bad, None)
        K = d["Kernel"]
        n += 1
        if [row["line_number"] for row in r.rows] != [k["LineNumber"] for k in K]:
            bad.append(("rows", "table rows for lines %r, dict has %r"
                        % ([row["line_number"] for row in r.rows], [k["LineNumber"] for k in K])))
            return item, (n, bad, None)
        unknown_lines = []
        for row, k in zip(r.rows, K):
            for p, raw in zip(ports, row["raw_cells"]):
                n += 1
                if not _cell_ok(raw, k["PortPressure"][p]):
                    bad.append(("cell", "line %d port %s: text %r, dict %r"
                                % (k["LineNumber"], p, raw, k["PortPressure"][p])))
            n += 2
            cp = row["cp"]
            if (cp is None and abs(k["LatencyCP"]) > 1e-12) or \
                    (cp is not None and abs(float(cp) - k["LatencyCP"]) > 0.05 + 1e-9):
                bad.append(("cp-cell", "line %d: CP cell %r, dict LatencyCP %r"
                            % (k["LineNumber"], cp, k["LatencyCP"])))
            lc = row["lcd"]
            if (lc is None and abs(k["LatencyLCD"]) > 1e-12) or \
                    (lc is not None and abs(float(lc) - k["LatencyLCD"]) > 0.05 + 1e-9):
                bad.append(("lcd-cell", "line %d: LCD cell %r, dict LatencyLCD %r"
                            % (k["LineNumber"], lc, k["LatencyLCD"])))
            unk = "tp_unknown" in k["Flags"]
            if unk:
                unknown_lines.append(k["LineNumber"])
            n += 1
            if k["Instruction"] is not None and (("X" in row["flags"]) != unk):
                bad.append(("x-mark", "line %d: flags %r, dict tp_unknown=%s"
                            % (k["LineNumber"], row["flags"], unk)))
        # unknown-instruction branch
        n += 1
        if unknown_lines and not ign:
            if r.missing != len(unknown_lines):
                bad.append(("missing-warning", "warning states %r missing instructions, dict has "
                            "%d lines flagged tp_unknown" % (r.missing, len(unknown_lines))))
            if r.summary is not None:
                bad.append(("summary", "totals printed although performance data is missing"))
        else:
            if r.missing is not None:
                bad.append(("missing-warning", "missing-data warning although %s"
                            % ("--ignore-unknown" if ign else "nothing is unknown")))
            if r.summary is None:
                bad.append(("summary", "no summary row"))
            else:
                S = d["Summary"]
                for p, raw in zip(ports, r.summary["raw_cells"]):
                    n += 1
                    if not _cell_ok(raw, S["PortPressure"][p]):
                        bad.append(("summary", "total of port %s: text %r, dict %r"
                                    % (p, raw, S["PortPressure"][p])))
                n += 2
                if abs(r.summary["cp"] - float(S["CriticalPath"])) > 0.05 + 1e-9:
                    bad.append(("summary", "CP total %r vs dict %r" % (r.summary["cp"],
                                                                      S["CriticalPath"])))
                if abs(r.summary["lcd"] - float(S["LCD"])) > 0.05 + 1e-9:
                    bad.append(("summary", "LCD total %r vs dict %r" % (r.summary["lcd"], S["LCD"])))
        n += 1
        if ("UnknownInstrWarning" in d["Warnings"]) != bool(unknown_lines):
            bad.append(("warnings", "dict UnknownInstrWarning=%s, unknown lines %r"
                        % ("UnknownInstrWarning" in d["Warnings"], unknown_lines)))
        # LCD list vs. the loop-carried dependencies of an independent analysis run
        deps = _lcds(path, isa, d["Header"]["Architecture"], fixed)
        got = sorted((l["line_number"], round(l["latency"], 1), tuple(l["members"]))
                     for l in r.lcd_list)
        exp = sorted((m[0], round(lat, 1), tuple(m)) for m, lat in deps)
        n += 1
        if got != exp:
            bad.append(("lcd-list", "LCD list %r, loop-carried dependencies %r" % (got, exp)))
        # rows marked in the CP column = the critical path of the independent analysis
        marked_cp = [row["line_number"] for row in r.rows if row["cp"] is not None]
        n += 1
        if marked_cp != _CP.get("lines"):
            bad.append(("cp-column", "CP column marks lines %r, the critical path is %r"
                        % (marked_cp, _CP.get("lines"))))
        mx = max([lat for _, lat in deps], default=0.0)
        marked_lines = sorted(row["line_number"] for row in r.rows if row["lcd"] is not None)
        n += 1
        if deps:
            if not any(abs(lat - mx) < 1e-9 and sorted(m) == marked_lines for m, lat in deps):
                bad.append(("lcd-column", "LCD column marks lines %r, which are not the members of "
                            "a loop-carried dependency attaining the maximum %r (%r)"
                            % (marked_lines, mx, deps)))
        elif marked_lines:
            bad.append(("lcd-column", "LCD column marks %r without any LCD" % marked_lines))
        n += 1
        if abs(float(d["Summary"]["LCD"]) - mx) > 1e-9:
            bad.append(("summary", "dict Summary.LCD %r, maximum LCD latency %r"
                        % (d["Summary"]["LCD"], mx)))
        # warnings
        n += 2
        if r.arch_warning != (arch is None) or ("ArchWarning" in d["Warnings"]) != (arch is None):
            bad.append(("arch-warning", "arch warning text=%s dict=%s, --arch given=%s"
                        % (r.arch_warning, "ArchWarning" in d["Warnings"], arch is not None)))
        if arch is None and (r.arch or "").lower() != DEFAULT[isa]:
            bad.append(("arch-warning", "default architecture %r used for %s" % (r.arch, isa)))
        with open(path) as f:
            code = f.read()
        nparsed = len([l for l in code.split("\n") if l.strip()])
        marked = len(K) != nparsed
        want = _EXPECT_ROWS.get(os.path.basename(path))
        if want is not None:
            n += 1
            marked = True
            if len(K) != want:
                bad.append(("selection", "%d lines analysed, the markers enclose %d"
                            % (len(K), want)))
        exp_len = (not marked) and nparsed > 100
        n += 1
        if r.length_warning != exp_len or ("LengthWarning" in d["Warnings"]) != exp_len:
            bad.append(("length-warning", "length warning text=%s dict=%s, expected %s (%d parsed "
                        "lines, marked=%s)" % (r.length_warning, "LengthWarning" in d["Warnings"],
                                               exp_len, nparsed, marked)))
        sig = (len(K), r.missing, r.summary and r.summary["cp"], r.summary and r.summary["lcd"],
               r.arch_warning, r.length_warning, len(r.lcd_list))
        return item, (n, bad, sig)
    except Exception:
        bad.append(("exception", traceback.format_exc()[-1500:]))
        return item, (n, bad, None)


def _lcds(path, isa, arch, fixed):
    from osaca.semantics import reduce_to_section
    parser = drive.get_parser(isa)
    with open(path) as f:
        kernel = reduce_to_section(parser.parse_file(f.read()), isa)
    mm = drive.MachineModel(arch=arch.lower())
    sem = drive.ArchSemantics(mm)
    sem.add_semantics(kernel)
    g = drive.KernelDG(kernel, parser, mm, sem, timeout=-1)
    out = []
    for v in g.get_loopcarried_dependencies().values():
        out.append(([i.line_number for i, _ in v["dependencies"]], float(v["latency"])))
    _CP["lines"] = [x.line_number for x in g.get_critical_path()]
    return out


_CP = {}


def second_application(isa, path, archs, ign):
    """library level: one parsed kernel analysed for one model and then, the same objects again,
    for another (as a session comparing micro-architectures does).  The number in the
    missing-data warning of the second report must be the number of lines marked X."""
    from osaca.frontend import Frontend
    from osaca.semantics import reduce_to_section
    parser = drive.get_parser(isa)
    with open(path) as f:
        kernel = reduce_to_section(parser.parse_file(f.read()), isa)
    bad = []
    for arch in archs:
        mm = drive.MachineModel(arch=arch)
        sem = drive.ArchSemantics(mm)
        sem.add_semantics(kernel)
        g = drive.graph_only(kernel, parser, mm, sem)
        text = Frontend(path, arch=arch).full_analysis(kernel, g, ignore_unknown=ign)
        r = RP.parse(text.lstrip("\n"))
        marked = [row["line_number"] for row in r.rows if "X" in row["flags"]]
        flagged = [k.line_number for k in kernel if "tp_unknown" in k.flags]
        if marked != flagged:
            bad.append(("x-mark", "[%s after %s] rows marked X %r, instructions flagged %r"
                        % (arch, archs[:archs.index(arch)], marked, flagged)))
        if not ign and marked and r.missing != len(marked):
            bad.append(("missing-warning", "[%s after %s] warning states %r missing instructions, "
                        "%d lines are marked X" % (arch, archs[:archs.index(arch)], r.missing,
                                                   len(marked))))
    return bad


def _second(item):
    isa, path, pair, ign = item
    try:
        return item, second_application(isa, path, pair, ign)
    except Exception:
        return item, [("exception", traceback.format_exc()[-1200:])]


def run(ctx):
    res = core.Result()
    _DIR["d"] = ctx.sub("c13files")
    archs = {"x86": ["zen1", "zen3"], "aarch64": ["n1", "tx2"]}
    if ctx.thorough:
        archs = {"x86": drive.shipped_archs("x86"), "aarch64": drive.shipped_archs("aarch64")}
    names = sorted(set(archs["x86"] + archs["aarch64"] + list(DEFAULT.values())))
    drive.stage_and_parse(ctx, names + ["isa/x86", "isa/aarch64"])
    items = []
    for path, isa in corpus(ctx):
        for arch in archs[isa] + [None]:
            for fixed in (False, True):
                for ign in (False, True):
                    if arch is None and (fixed or (ign and not ctx.thorough)):
                        continue
                    items.append((path, isa, arch, fixed, ign))
    out = core.pmap(check_case, core.rotate(items, ctx.seed), chunk=2)
    for (path, isa, arch, fixed, ign), (n, bad, sig) in out:
        res.states += 1
        res.traces += 1
        res.transitions += n
        res.nontrivial += 1
        res.outcomes.add(sig)
        for kind, what in bad:
            res.violations.append(core.Violation(
                {"kind": kind, "isa": isa},
                "[%s arch=%s fixed=%s ignore_unknown=%s] %s"
                % (os.path.basename(path), arch, fixed, ign, what),
                {"path": path if path.startswith(core.REPO) else os.path.basename(path),
                 "isa": isa, "arch": arch, "fixed": fixed, "ignore_unknown": ign, "what": what}))
    # the same parsed kernel analysed for two models in a row (library level)
    sitems = []
    for path, isa in corpus(ctx):
        if "unknown" in os.path.basename(path) or "tp_missing" in os.path.basename(path):
            a = archs[isa][:2]
            for pair in (a, a[::-1], [a[0], a[0]]):
                for ign in (False, True):
                    sitems.append((isa, path, list(pair), ign))
    sout = core.pmap(_second, sitems, chunk=1)
    for (isa, path, pair, ign), bad in sout:
        res.states += 1
        res.traces += 1
        res.transitions += 2
        for kind, what in bad:
            res.violations.append(core.Violation(
                {"kind": kind, "isa": isa, "part": "second-application"},
                "[%s ignore_unknown=%s] %s" % (os.path.basename(path), ign, what),
                {"part": "second-application", "path": os.path.basename(path), "isa": isa,
                 "archs": pair, "ignore_unknown": ign, "what": what}))
    res.extra["second_application_cases"] = len(sitems)
    for (path, isa, arch, fixed, ign), (n, bad, sig) in out[:2] + out[len(out) // 2:len(out) // 2 + 2]:
        res.add_sample({"kernel": os.path.basename(path), "arch": arch, "fixed": fixed,
                        "ignore_unknown": ign, "(lines, missing, cp, lcd, archwarn, lenwarn, "
                        "lcd entries)": sig})
    res.evaluations = res.states
    res.rule = ("(kernel corpus: shipped examples and test kernels + generated kernels with unknown "
                "mnemonics, zero-pressure instructions, no / several LCDs, port sums >= 10 and >= 100, "
                "100 and 101 unmarked lines) x (models; quick: 2 per ISA + the default model without "
                "--arch, thorough: all) x {--fixed, optimal} x {--ignore-unknown or not}; the text "
                "report is parsed back by column position and compared cell by cell with the YAML "
                "output of the same run, the LCD list with an independent analysis")
    res.assumptions = ["report layout as parsed by mc/ref/report.py",
                       "cells compared at the precision the text shows"]
    return res


def replay(ctx, payload):
    r = payload["replay"]
    _DIR["d"] = ctx.sub("c13files")
    paths = {os.path.basename(p): p for p, _ in _gen_kernels(_DIR["d"])}
    if r.get("part") == "second-application":
        drive.stage_and_parse(ctx, r["archs"] + ["isa/x86", "isa/aarch64"])
        bad = second_application(r["isa"], paths[r["path"]], r["archs"], r["ignore_unknown"])
        for b in bad:
            print(b)
        return 1 if bad else 0
    path = r["path"] if r["path"].startswith("/") else paths[r["path"]]
    names = [r["arch"] or DEFAULT[r["isa"]], "isa/x86", "isa/aarch64"]
    drive.stage_and_parse(ctx, names)
    _, (n, bad, sig) = check_case((path, r["isa"], r["arch"], r["fixed"], r["ignore_unknown"]))
    for b in bad:
        print(b)
    return 1 if bad else 0
