"""C16 - LCD result is independent of process scheduling and worker count."""
import os
import subprocess
import sys
import traceback

from mc import core, drive, dgfam, sched
from mc.checks import c05

LEVEL = "model_checking"

def _ladder(k):
    out, src = [], "%r9"
    for d in range(k):
        dst = ("%r12", "%r13")[d % 2]
        out += ["opsd %s, %%r10" % src, "opsd %s, %%r11" % src, "tssd %%r10, %%r11, %s" % dst]
        src = dst
    return out


# kernels (indices into the C05 x86 alphabet are resolved by text below)
KERNELS = {
    # four single-instruction cycles, two pairs of equal latency (ties); the last line is a root
    "k4": ["opbs %r8, %r8", "tie %r9, %r9", "opbs %r10, %r10", "tie %r11, %r11"],
    # cycles sharing instructions + a zero-latency member
    "k5": ["opbs %r8, %r8", "opsb %r8, %r9", "mv0 %r9, %r10", "opsb %r10, %r8",
           "tie %r11, %r11"],
    "k6": ["opbs %r8, %r8", "tie %r9, %r9", "opsb %r8, %r10", "opsb %r9, %r10",
           "opsb %r10, %r8", "opbs %r11, %r11"],
    # diamond: two cycles of equal latency that share their first instruction, with the two
    # branch instructions in different worker sections
    "k7": ["tssd %r10, %r11, %r8", "opsd %r8, %r10", "opsd %r8, %r11", "tie %r12, %r12"],
    # five single-instruction cycles with empty lines in between: the line numbers of the kernel
    # have gaps (1, 3, 4, 7, 8), every instruction is the last one of some worker section
    "k8": ["opbs %r8, %r8", "", "tie %r9, %r9", "opbs %r10, %r10", "", "", "tie %r11, %r11",
           "opbs %r12, %r12"],
    # a ladder of ten diamonds behind a two-instruction head r, a: 1024 long cycles and the short
    # cycle {r, a}; r and a each start 1025 dependency paths, the short one enumerated last
    # (results handed over in pieces must still be complete)
    "k9": ["tssd %r9, %r13, %r8", "opsd %r8, %r9"] + _ladder(10),
}
# the same kernels 1500 lines into a file (their second-iteration copies are numbered relative
# to the highest line number, which every worker has to agree on)
# a cycle made of zero-latency instructions only (eliminated moves), next to ordinary ones
KERNELS["k10"] = ["mv0 %r8, %r9", "mv0 %r9, %r8", "opbs %r10, %r10", "mv0 %r11, %r11",
                  "tie %r12, %r12"]
KERNELS["k4hi"] = [""] * 1500 + KERNELS["k4"]
KERNELS["k6hi"] = [""] * 1500 + KERNELS["k6"]


def lcd_obs(g):
    out = []
    for key, v in g.loopcarried_deps.items():
        out.append((key, tuple((i.line_number, float(l)) for i, l in v["dependencies"]),
                    float(v["latency"]), v["root"].line_number))
    return tuple(out)


def analyse_under(world_args, texts, timeout, flags=False):
    """one execution of the real parallel search under the virtual world"""
    import osaca.semantics.kernel_dg as kd
    prefix, cpu = world_args
    fam = c05._FAM["x86"]
    mm, sem = fam.load()
    parser, kernel = dgfam.parsed_kernel("x86", texts, via_parse_file=True)
    sem.add_semantics(kernel)
    w = sched.World(prefix, cpu, max_idle_wakes=(None if (timeout != -1 and timeout < 5) else 1))
    undo = sched.install(w, kd)
    old_thr = kd.KernelDG.INSTRUCTION_THRESHOLD
    kd.KernelDG.INSTRUCTION_THRESHOLD = 1
    err = None
    g = None
    try:
        g = kd.KernelDG(kernel, parser, mm, sem, timeout=timeout, flag_dependencies=flags)
    except sched.ReplayDivergence:
        raise
    except Exception:
        err = traceback.format_exc()[-1200:]
    finally:
        kd.KernelDG.INSTRUCTION_THRESHOLD = old_thr
        leftovers = w.finish()
        undo()
    return w, g, kernel, err, leftovers


def sequential(texts, flags=False):
    import osaca.semantics.kernel_dg as kd
    fam = c05._FAM["x86"]
    mm, sem = fam.load()
    parser, kernel = dgfam.parsed_kernel("x86", texts, via_parse_file=True)
    sem.add_semantics(kernel)
    g = kd.KernelDG(kernel, parser, mm, sem, timeout=-1, flag_dependencies=flags)
    rep = c05._FE["x86"].full_analysis(kernel, g, ignore_unknown=True)
    return lcd_obs(g), drive.strip_report(rep)


def explore_config(item):
    kname, cpu, timeout, bound, first = item
    texts = KERNELS[kname]
    ref, ref_rep = sequential(texts)
    n = 0
    bad = []
    outcomes = set()
    raw_orders = set()
    maxlen = 0

    def run_one(prefix):
        w, g, kernel, err, left = analyse_under((prefix, cpu), texts, timeout)
        obs = None
        if g is not None:
            rep = drive.strip_report(c05._FE["x86"].full_analysis(
                kernel, g, ignore_unknown=True, lcd_warning=g.timed_out))
            obs = (lcd_obs(g), g.timed_out, rep)
        raw_orders.add(tuple(tuple(map(tuple, l._items)) for l in w.lists))
        return w.choices, w.noptions, (obs, err, left, len(w.procs))

    for choices, (obs, err, left, nprocs) in sched.explore(run_one, bound=bound,
                                                            first_prefixes=first):
        n += 1
        maxlen = max(maxlen, len(choices))
        if err:
            bad.append(("exception", choices, err))
            continue
        lcd, timed_out, rep = obs
        outcomes.add(lcd)
        if lcd != ref:
            if len(ref) > 20:
                missing = [k for k in ref if k not in set(lcd)]
                extra = [k for k in lcd if k not in set(ref)]
                bad.append(("result", choices, "parallel result has %d cycles, sequential %d; "
                            "missing e.g. %r, additional e.g. %r"
                            % (len(lcd), len(ref), [m[0] for m in missing[:3]],
                               [m[0] for m in extra[:3]])))
            else:
                bad.append(("result", choices, "parallel result %r != sequential %r" % (lcd, ref)))
        elif rep != ref_rep:
            bad.append(("report", choices, "report differs from the single-process report"))
        if timed_out:
            bad.append(("timed_out", choices, "timed_out set although no timeout can strike"))
        for l in left:
            bad.append(("leftover", choices, l))
    return item, (n, bad[:30], len(outcomes), maxlen, len(raw_orders))


def first_level(kname, cpu, timeout, depth):
    """prefixes of the given depth (to shard one configuration over processes)"""
    texts = KERNELS[kname]
    frontier = [[]]
    for _ in range(depth):
        nxt = []
        for pre in frontier:
            w, g, kernel, err, left = analyse_under((pre, cpu), texts, timeout)
            if len(w.choices) <= len(pre):
                nxt.append(pre)
                continue
            for alt in range(w.noptions[len(pre)]):
                nxt.append(pre + [alt])
        frontier = nxt
    return frontier


# ------------------------------------------------------------------------------------------
# conformance: the same kernels through the real multiprocessing path

CONF_SCRIPT = r'''
import sys, json, os
sys.path.insert(0, %(verif)r)
os.environ["HOME"] = %(home)r
from mc import core, drive, dgfam
from mc.checks import c05, c16
import osaca.semantics.kernel_dg as kd
ctx = core.Ctx("C16conf", "quick", 0)
try:
    c05.setup(ctx, "c16conf")
    out = {}
    for kname, texts in c16.KERNELS.items():
        if kname in %(skip)r:
            continue
        ref, _ = c16.sequential(texts)
        for cpu in (%(cpus)r if kname != "k9" else [3]):
            kd.cpu_count = lambda c=cpu: c
            kd.KernelDG.INSTRUCTION_THRESHOLD = 1
            fam = c05._FAM["x86"]
            mm, sem = fam.load()
            parser, kernel = dgfam.parsed_kernel("x86", texts, via_parse_file=True)
            sem.add_semantics(kernel)
            g = kd.KernelDG(kernel, parser, mm, sem, timeout=30)
            kd.KernelDG.INSTRUCTION_THRESHOLD = 50
            out["%%s/%%d" %% (kname, cpu)] = [c16.lcd_obs(g) == ref, g.timed_out]
            if cpu in (5, 16) and hasattr(os, "sched_setaffinity") and kname != "k9":
                # the same analysis with the process pinned to two CPUs (taskset, batch job):
                # the CPU mask is one more environment answer the result must not depend on
                mask = os.sched_getaffinity(0)
                try:
                    if len(mask) > 2:
                        os.sched_setaffinity(0, set(sorted(mask)[:2]))
                    pinned = len(mask) > 2
                except OSError:
                    pinned = False
                if pinned:
                    try:
                        kd.KernelDG.INSTRUCTION_THRESHOLD = 1
                        parser, kernel = dgfam.parsed_kernel("x86", texts, via_parse_file=True)
                        sem.add_semantics(kernel)
                        g = kd.KernelDG(kernel, parser, mm, sem, timeout=30)
                        out["%%s/%%d pinned to 2 CPUs" %% (kname, cpu)] = [c16.lcd_obs(g) == ref,
                                                                        g.timed_out]
                    finally:
                        kd.KernelDG.INSTRUCTION_THRESHOLD = 50
                        os.sched_setaffinity(0, mask)
    print("CONF" + json.dumps(out))
finally:
    ctx.cleanup()
'''


def conformance(ctx, cpus):
    # the 1024-cycle kernel costs ~25 s per analysis: real processes only in the thorough tier
    skip = [] if ctx.thorough else ["k9"]
    code = CONF_SCRIPT % {"verif": core.VERIF, "home": ctx.home, "cpus": cpus, "skip": skip}
    env = dict(os.environ)
    env["PYTHONHASHSEED"] = "0"
    p = subprocess.run([sys.executable, "-c", code], capture_output=True, text=True, env=env,
                       timeout=900)
    import json
    for line in p.stdout.splitlines():
        if line.startswith("CONF"):
            return json.loads(line[4:]), None
    return None, (p.stdout[-500:] + p.stderr[-1500:])


def hashseed_sweep(ctx, seeds):
    """supplementary, explicitly non-exhaustive: byte-identical CLI reports under several str
    hash seeds and repeated runs"""
    path = os.path.join(core.REPO, "tests", "test_files", "kernel_x86_memdep.s")
    reps = {}
    for s in seeds:
        for rep in range(2):
            env = dict(os.environ)
            env["PYTHONHASHSEED"] = str(s)
            p = subprocess.run([sys.executable, "-m", "osaca", "--arch", "zen1", path],
                               capture_output=True, text=True, env=env, timeout=300,
                               cwd=ctx.scratch)
            reps[(s, rep)] = drive.strip_report(p.stdout, keep_filename=True) if p.returncode == 0 \
                else "ERROR " + p.stderr[-400:]
    return reps


def run(ctx):
    res = core.Result()
    c05.setup(ctx, "c16")
    for texts in KERNELS.values():
        dgfam.warm_parse_cache("x86", [t for t in texts if t])
    items = []
    plan = [("k4", 2, -1, None), ("k4", 3, -1, None), ("k4", 1, -1, None), ("k4", 7, -1, 2),
            ("k5", 2, -1, None), ("k5", 3, -1, None), ("k5", 16, -1, 1),
            ("k6", 2, -1, None), ("k6", 3, -1, 2 if not ctx.thorough else None),
            ("k4", 2, 50, 2 if not ctx.thorough else None), ("k5", 3, 50, 2), ("k6", 5, -1, 2),
            ("k7", 2, -1, None), ("k7", 3, -1, None), ("k7", 4, -1, None),
            ("k8", 1, -1, None), ("k8", 2, -1, None), ("k8", 3, -1, 3), ("k8", 5, -1, 2),
            ("k4hi", 2, -1, None), ("k4hi", 3, -1, 3), ("k6hi", 3, -1, 2),
            ("k10", 2, -1, None), ("k10", 3, -1, 3), ("k10", 1, -1, None),
            ]
    # one schedule each is enough here: what is lost does not depend on the order
    plan = [("k9", 3, -1, 0)] + plan
    if ctx.thorough:
        plan += [("k9", 16, -1, 0), ("k9", 1, -1, 0)]
        plan += [("k6", 9, -1, 2), ("k5", 5, -1, 3), ("k6", 3, 50, 3), ("k4", 3, 50, 3)]
    for kname, cpu, timeout, bound in plan:
        fl = first_level(kname, cpu, timeout, 0 if kname == "k9" else 2)
        # shard: one item per first-level prefix
        for pre in fl:
            items.append((kname, cpu, timeout, bound, [pre]))
    # the expensive configurations first
    heavy = [it for it in items if it[0] == "k9"]
    items = heavy + core.rotate([it for it in items if it[0] != "k9"], ctx.seed)
    out = core.pmap(explore_config, items, chunk=1)
    per_cfg = {}
    raw_total = 0
    for (kname, cpu, timeout, bound, first), (n, bad, nout, maxlen, nraw) in out:
        raw_total += nraw
        res.states += n
        res.traces += n
        res.transitions += n * maxlen
        res.nontrivial += n
        key = (kname, cpu, timeout, bound)
        per_cfg[key] = per_cfg.get(key, 0) + n
        res.outcomes.add((kname, nout))
        for kind, choices, what in bad:
            res.violations.append(core.Violation(
                {"kind": kind, "part": "virtual"},
                "[%s workers=%d timeout=%s] schedule %r: %s" % (kname, cpu, timeout, choices, what),
                {"part": "virtual", "kernel": kname, "cpu_count": cpu, "timeout": timeout,
                 "schedule": choices, "what": what}))
    for k, n in sorted(per_cfg.items(), key=str):
        res.add_sample({"kernel": k[0], "cpu_count": k[1], "timeout": k[2],
                        "deviation_bound": "complete" if k[3] is None else k[3],
                        "schedules": n}, cap=20)
    res.extra["distinct_arrival_orders_of_the_shared_list"] = raw_total
    # conformance with real multiprocessing
    conf, err = conformance(ctx, [1, 2, 3, 5, 16])
    if conf is None:
        res.violations.append(core.Violation({"kind": "conformance-crash", "part": "real"},
                                             "real multiprocessing run failed: %s" % err,
                                             {"part": "real", "what": err}))
    else:
        for k, (same, timed_out) in conf.items():
            res.traces += 1
            if not same or timed_out:
                res.violations.append(core.Violation(
                    {"kind": "conformance", "part": "real"},
                    "real multiprocessing run %s: result equals sequential=%s timed_out=%s"
                    % (k, same, timed_out), {"part": "real", "config": k}))
        res.extra["conformance_runs_real_multiprocessing"] = len(conf)
    # supplementary hash-seed sweep (not exhaustive, labelled as such)
    seeds = [0, 1, 7, 12345] if ctx.thorough else [0, ctx.seed % 1000 + 1]
    reps = hashseed_sweep(ctx, seeds)
    base = reps[(seeds[0], 0)]
    for k, r in reps.items():
        res.traces += 1
        if r != base:
            res.violations.append(core.Violation(
                {"kind": "repeatability", "part": "real"},
                "CLI report under PYTHONHASHSEED=%s (run %d) differs from seed %s"
                % (k[0], k[1], seeds[0]), {"part": "real", "hashseed": k[0]}))
    res.extra["hashseed_sweep_supplementary_non_exhaustive"] = len(reps)
    res.evaluations = res.traces
    res.rule = ("every schedule (order of the workers' list extensions, completion order, poller "
                "wake-ups) of the real check_for_loopcarried_dep under a virtual process/manager/"
                "clock world, for kernels of 4-6 instructions with 3-6 cycles incl. ties, threshold "
                "patched to 1, worker counts {1, 2, 3, 5, 7, 16}; complete for 2-3 workers, deviation "
                "bound 1-2 for more; oracle: result (keys, order, members, latencies) and report equal "
                "the single-process result in every schedule; plus real-multiprocessing conformance "
                "runs and a supplementary hash-seed sweep")
    res.bounds = {"deviation_bound": "complete or 1-3 as listed in samples"}
    res.assumptions = [
        "a killed worker's pending list extension either happened completely or not at all",
        "real OS scheduling / signal delivery are represented by the virtual world; the conformance "
        "runs bind it to multiprocessing on a handful of executions",
        "hash-seed sensitivity: only a few seeds are tried (supplementary)"]
    return res


def replay(ctx, payload):
    r = payload["replay"]
    if r.get("part") != "virtual":
        print("real-run finding; re-run the check")
        return 1
    c05.setup(ctx, "c16")
    texts = KERNELS[r["kernel"]]
    ref, _ = sequential(texts)
    obs = []
    for _ in range(2):
        w, g, kernel, err, left = analyse_under((r["schedule"], r["cpu_count"]), texts,
                                                r["timeout"])
        obs.append((lcd_obs(g) if g else None, err, tuple(left)))
    assert obs[0] == obs[1], "replay is not deterministic"
    print("events:", w.events)
    print("result == sequential:", obs[0][0] == ref, "leftovers:", obs[0][2])
    return 0 if (obs[0][0] == ref and not obs[0][1] and not obs[0][2]) else 1
