"""C01 - port pressure is a feasible split of each instruction's micro-ops."""
import itertools
import json
import traceback

from mc import core, drive, portmodels
from mc.ref import ports as R

LEVEL = "model_checking"
_M = {}  # scheme -> dict(mm, sem, fe, forms, ports)
STAGES = ("uniform", "opt1", "opt2")


def _setup(ctx):
    d = ctx.sub("c01")
    for name, ports in portmodels.SCHEMES.items():
        forms = portmodels.c01_forms(ports, with_strings=(name in ("ABC", "112")))
        path, isa = portmodels.write_model(d, name, ports, forms)
        mm = drive.MachineModel(path_to_yaml=path)
        sem = drive.ArchSemantics(mm, path_to_yaml=isa)
        from osaca.frontend import Frontend
        fe = Frontend(path_to_yaml=path)
        _M[name] = dict(mm=mm, sem=sem, fe=fe, forms=forms, ports=ports, path=path, isa=isa)
    _setup_mem(d)


def _setup_mem(d):
    """zen1-style model with load/store multipliers and memory-composed instructions."""
    from mc import synth
    ports = ["A", "B", "C"]
    forms = [
        synth.form("vaddpd", [synth.reg("x86", "xmm")] * 3, 3.0, 1.0, [[1, ["A", "B"]]]),
        synth.form("add", [synth.reg("x86", "gpr")] * 2, 1.0, 1.0, [[1, ["A", "B", "C"]]]),
        synth.form("vmovapd", [synth.reg("x86", "ymm")] * 2, 1.0, 1.0, [[1, ["A"]]]),
    ]
    mm = synth.machine_model(
        "x86", ports, forms, arch_code="SYNMEM",
        # a row of its own for the base-only shape (the default applies to all other shapes)
        load_throughput=[{"base": "gpr", "index": None, "offset": None, "scale": 1,
                          "port_pressure": [[1, ["B"]]]}],
        load_throughput_default=[[1, ["B", "C"]]],
        store_throughput_default=[[1, ["C"]], [1, ["A", "C"]]],
        load_throughput_multiplier={"gpr": 1.0, "xmm": 2.0, "ymm": 2.0},
        store_throughput_multiplier={"gpr": 1.0, "xmm": 1.0, "ymm": 2.0},
    )
    path = synth.write(d + "/syn_mem.yml", mm)
    # the ISA database only says that 'add gpr, mem' reads and writes its memory operand
    isa = synth.write(d + "/isa_mem_x86.yml", synth.isa_db("x86", [
        {"name": "add", "operands": [
            {"class": "register", "name": "gpr", "source": True, "destination": False},
            {"class": "memory", "base": "*", "offset": "*", "index": "*", "scale": "*",
             "source": True, "destination": True}]}]))
    m = drive.MachineModel(path_to_yaml=path)
    sem = drive.ArchSemantics(m, path_to_yaml=isa)
    from osaca.frontend import Frontend
    _M["MEM"] = dict(mm=m, sem=sem, fe=Frontend(path_to_yaml=path), ports=ports, path=path,
                     isa=isa, forms=None)


MEM_INSTR = {
    # text -> expected scaled micro-ops (reference: register form ++ multiplier x data uops)
    "vaddpd (%rax), %xmm1, %xmm2": [[1, ["A", "B"]], [2.0, ["B"]]],
    "vaddpd %xmm0, %xmm1, %xmm2": [[1, ["A", "B"]]],
    "addq 8(%rax,%rcx,8), %rbx": [[1, ["A", "B", "C"]], [1.0, ["B", "C"]]],
    "addq %rbx, %rcx": [[1, ["A", "B", "C"]]],
    "vmovapd %ymm1, (%rax)": [[1, ["A"]], [2.0, ["C"]], [2.0, ["A", "C"]]],
    "vmovapd (%rax), %ymm1": [[1, ["A"]], [2.0, ["B"]]],
    "vmovapd 8(%rax), %ymm1": [[1, ["A"]], [2.0, ["B", "C"]]],
    # read-modify-write: register form ++ load row ++ store rows
    "addq %rbx, (%rax)": [[1, ["A", "B", "C"]], [1.0, ["B"]], [1.0, ["C"]], [1.0, ["A", "C"]]],
}


def _line(el):
    if el == "#c":
        return "# a comment"
    if el == "L:":
        return "lbl:"
    return el


def _shape(uops):
    if isinstance(uops, dict):
        return "alternatives"
    sets = [frozenset(list(p)) for _, p in uops]
    if len(sets) <= 1:
        return "single"
    kinds = set()
    for x, y in itertools.combinations(sets, 2):
        if x == y:
            kinds.add("equal")
        elif x < y or y < x:
            kinds.add("nested")
        elif x & y:
            kinds.add("overlap")
        else:
            kinds.add("disjoint")
    return "+".join(sorted(kinds))


def _check_kernel(item):
    scheme, els = item
    M = _M[scheme]
    ports = M["ports"]
    text = "\n".join(_line(e) for e in els) + "\n"
    out = {"n": 0, "bad": [], "outcome": None}
    try:
        parser = drive.get_parser("x86")
        kernel = parser.parse_file(text)
        M["sem"].add_semantics(kernel)
        obs = []
        for stage in STAGES:
            if stage != "uniform":
                M["sem"].assign_optimal_throughput(kernel)
            passes = STAGES.index(stage)
            for el, ins in zip(els, kernel):
                if scheme == "MEM":
                    spec = MEM_INSTR[el]
                elif el in ("#c", "L:"):
                    spec = []
                else:
                    spec = M["forms"][el]
                if isinstance(spec, dict):
                    chosen = ins.port_uops
                    if isinstance(chosen, dict):
                        chosen = chosen[0]
                    if scheme != "MEM" and [list(map(_canon, u)) for u in chosen] not in [
                            [list(map(_canon, u)) for u in alt] for alt in spec.values()]:
                        out["bad"].append((stage, el, "alt", "chosen micro-ops %r are not one "
                                           "of the declared alternatives" % (chosen,), 1.0))
                        continue
                    uops = R.norm_uops(chosen)
                else:
                    uops = R.norm_uops(spec)
                tol = 1e-9 if passes == 0 else 0.01 * max(1, len(uops)) * passes + 1e-6
                dev, what = R.feasibility_deviation(list(ins.port_pressure), uops, ports)
                out["n"] += 1
                if dev > tol:
                    out["bad"].append((stage, el, _clause(what), what,
                                       [[c, sorted(p)] for c, p in uops]))
            # kernel totals = column sums over lines with throughput != 0
            tp_sum = M["sem"].get_throughput_sum(kernel)
            rows = [i.port_pressure for i in kernel if i.throughput != 0.0]
            if rows:
                exp = [sum(col) for col in zip(*rows)]
                out["n"] += 1
                if len(tp_sum) != len(exp) or any(abs(x - y) > 0.005 + 1e-9
                                                  for x, y in zip(tp_sum, exp)):
                    out["bad"].append((stage, "*", "totals", "kernel totals %r != column sums %r"
                                       % (tp_sum, [round(e, 4) for e in exp]), 1.0))
            else:
                if tp_sum != []:
                    out["bad"].append((stage, "*", "totals", "totals %r for a kernel without any "
                                       "line carrying throughput" % (tp_sum,), 1.0))
            obs.append(tuple(tp_sum))
            # the report must be producible at every stage (--fixed = uniform stage)
            if any(i.mnemonic is not None for i in kernel) and (stage == "uniform" or len(els) == 1):
                dg0 = drive.KernelDG(kernel, parser, M["mm"], M["sem"])
                M["fe"].full_analysis(kernel, dg0, ignore_unknown=True)
                M["fe"].full_analysis_dict(kernel, dg0)
        # same numbers through the machine-readable frontend output
        if any(i.mnemonic is not None for i in kernel):
            dg = drive.KernelDG(kernel, parser, M["mm"], M["sem"])
            d = M["fe"].full_analysis_dict(kernel, dg)
            tp_sum = M["sem"].get_throughput_sum(kernel) or kernel[0].port_pressure
            summ = [d["Summary"]["PortPressure"][p] for p in ports]
            out["n"] += 1
            if list(summ) != list(tp_sum):
                out["bad"].append(("frontend", "*", "frontend", "Summary.PortPressure %r != totals %r"
                                   % (summ, tp_sum), 1.0))
            for k, ins in zip(d["Kernel"], kernel):
                row = [k["PortPressure"][p] for p in ports]
                if row != list(ins.port_pressure):
                    out["bad"].append(("frontend", "*", "frontend", "Kernel[].PortPressure %r != %r"
                                       % (row, ins.port_pressure), 1.0))
        out["outcome"] = tuple(obs)
    except Exception:
        out["bad"].append(("exception", "*", "exception", traceback.format_exc()[-1500:], 1.0))
    return item, out


def _canon(x):
    if isinstance(x, (int, float)):
        return float(x)
    return sorted(list(x))


def _clause(what):
    if what.startswith("negative"):
        return "negative"
    if "no micro-op may use" in what:
        return "support"
    if what.startswith("sum of"):
        return "sum"
    return "hall"


def _kernels(ctx):
    items = []
    for scheme in portmodels.SCHEMES:
        names = list(_M[scheme]["forms"]) + ["#c", "L:"]
        for L in (1, 2):
            for k in itertools.product(names, repeat=L):
                items.append((scheme, k))
        if ctx.thorough:
            red = [n for n in names if n[0] in "dmta" or n in ("s00", "s13", "s26", "z0", "#c")]
            if scheme != "ABC":
                red = red[::3]
            for k in itertools.product(red, repeat=3):
                items.append((scheme, k))
    mem = list(MEM_INSTR)
    for L in (1, 2, 3) if ctx.thorough else (1, 2):
        for k in itertools.product(mem, repeat=L):
            items.append(("MEM", k))
    return items


def run(ctx):
    res = core.Result()
    _setup(ctx)
    items = core.rotate(_kernels(ctx), ctx.seed)
    out = core.pmap(_check_kernel, items)
    seen = set()
    for (scheme, els), o in out:
        res.states += 1
        res.traces += 1
        res.transitions += o["n"]
        res.outcomes.add((scheme, o["outcome"]))
        if len(els) > 1:
            res.nontrivial += 1
        for stage, el, clause, what, spec in o["bad"]:
            if not isinstance(spec, list):
                spec = None
            shape = _shape(spec) if spec is not None else "n/a"
            key = {"stage": stage, "clause": clause,
                   "uops": len(spec) if spec is not None else "n/a",
                   "shape": shape,
                   "unequal_overlapping_port_sets": ("nested" in shape or "overlap" in shape)}
            res.violations.append(core.Violation(
                key, "model %s kernel %r stage %s element %s: %s" % (scheme, list(els), stage, el,
                                                                     what),
                {"scheme": scheme, "kernel": list(els), "stage": stage, "what": what}))
    for (scheme, els), o in out[:3] + out[len(out) // 2:len(out) // 2 + 2]:
        res.add_sample({"model": scheme, "kernel": list(els), "totals_per_stage": o["outcome"]})
    # (b) real instructions on the shipped models
    from mc.checks import c01_shipped
    res.merge(c01_shipped.run_part(ctx))
    res.evaluations = res.states
    res.rule = ("all kernels of length <=2 (thorough: <=3 over a reduced alphabet) over every form "
                "of the synthetic 3-port models (3 port naming schemes; 1-3 micro-ops with equal/"
                "nested/overlapping/disjoint port sets; cycles 1, 2, 0.5; alternative assignments; "
                "throughput-0 form; comment and label lines) plus a model with load/store "
                "multipliers; each kernel observed after uniform assignment, one and two "
                "optimisation passes; (b) on shipped models (quick: zen1, icx, snb, tx2, a64fx; thorough: "
                "all): one synthesised instruction per distinct micro-op list (thorough: per "
                "entry), all kernels of length 1 and all ordered pairs over at most 40 of them, "
                "against the micro-op list of the entry selected by the reference matcher; "
                "non-trivial = kernels of length >= 2")
    res.bounds = {"kernel_length": 3 if ctx.thorough else 2, "ports": 3,
                  "forms_per_scheme": {k: len(v["forms"]) for k, v in _M.items() if v["forms"]}}
    res.assumptions = [
        "Hall's condition over all port subsets is the exact feasibility criterion (max-flow duality)",
        "tolerance under optimised scheduling = 0.01 x #micro-ops x #passes + 1e-6 (granularity clause)",
        "data values outside the alphabet (other cycle counts, more than 3 ports) are not covered",
    ]
    return res


def replay(ctx, payload):
    r = payload["replay"]
    if r.get("part") == "shipped-models":
        from mc.checks import c01_shipped
        return c01_shipped.replay(ctx, payload)
    _setup(ctx)
    item, o = _check_kernel((r["scheme"], tuple(r["kernel"])))
    for b in o["bad"]:
        print("stage %s element %s: %s" % (b[0], b[1], b[3]))
    print("totals per stage:", o["outcome"])
    return 1 if o["bad"] else 0
