"""C14 - loop-carried dependencies are invariant under rotation of the loop body."""
import itertools
import os
import traceback

from mc import core, drive, dgfam
from mc.checks import c04, c05

LEVEL = "model_checking"
_MODELS = {}


def _lcd_sig(kernel, g, rot, n):
    """set of (sorted original indices of members, total latency), LCD figure"""
    pos = {k.line_number: i for i, k in enumerate(kernel)}
    deps = g.get_loopcarried_dependencies()
    s = set()
    for v in deps.values():
        members = tuple(sorted((pos[i.line_number] + rot) % n for i, _ in v["dependencies"]))
        s.add((members, round(float(v["latency"]), 6)))
    mx = max((l for _, l in s), default=0.0)
    return s, mx


def _rotations_synth(item):
    famname, idxs, flags = item
    fam = c05._FAM[famname]
    ris = [c05._ALPHA[famname][i][1] for i in idxs]
    n = len(ris)
    out = {"bad": [], "n": 0, "sig": None}
    try:
        base = None
        for r in range(n):
            rot = ris[r:] + ris[:r]
            kernel, g = dgfam.observe(fam, rot, flags)
            sig = _lcd_sig(kernel, g, r, n)
            out["n"] += 1
            if base is None:
                base = sig
                out["sig"] = (tuple(sorted(sig[0])), sig[1])
            elif sig != base:
                out["bad"].append((r, "rotation by %d: cycles %s (LCD %s) != unrotated %s (LCD %s)"
                                   % (r, sorted(sig[0]), sig[1], sorted(base[0]), base[1])))
    except Exception:
        out["bad"].append((-1, traceback.format_exc()[-1200:]))
    return item, out


_BODY = {}


def _body(path, isa):
    if path not in _BODY:
        from osaca.semantics import reduce_to_section
        parser = drive.get_parser(isa)
        with open(path) as f:
            code = f.read()
        _BODY[path] = [k.line for k in reduce_to_section(parser.parse_file(code), isa)]
    return _BODY[path]


def _one_rotation_shipped(item):
    path, isa, arch, flags, r = item
    try:
        mm, sem = _MODELS[arch]
        parser = drive.get_parser(isa)
        lines = _body(path, isa)
        n = len(lines)
        rot = lines[r:] + lines[:r]
        kernel = parser.parse_file("\n".join(rot) + "\n")
        sem.add_semantics(kernel)
        g = drive.KernelDG(kernel, parser, mm, sem, timeout=-1, flag_dependencies=flags)
        s, mx = _lcd_sig(kernel, g, r, n)
        return item, (tuple(sorted(s)), mx), None
    except Exception:
        return item, None, traceback.format_exc()[-1200:]


# real instructions on the shipped ISA databases: implicit-operand instructions (no written
# operand at all), stack accesses, write-back addressing, store/load through equal addresses
REAL = {
    "x86": ["movl (%rdi,%rax,4), %eax", "cltq", "addq %rax, %rbx", "cltd", "movq %rdx, %rcx",
            "cqto", "imulq %rcx, %rax", "pushq %rbx", "popq %rcx", "movq %rax, 8(%rsp)",
            "movq 8(%rsp), %rdx", "incq %rax", "vzeroupper", "vaddpd %ymm1, %ymm2, %ymm1",
            "subq $8, %rsp", "movq %rcx, (%rdi)", "addq $8, %rdi", "movq (%rdi), %rbx"],
    "aarch64": ["ldr d1, [x1], #8", "ldr d2, [x1]", "fadd d3, d2, d1", "str d3, [x1, #8]",
                "add x1, x1, #8", "ldr x2, [x1, #16]!", "mov x3, x1", "str d3, [x3]",
                "fdiv v6.2d, v6.2d, v7.2d", "fdiv v8.4s, v8.4s, v7.4s",
                "ldp d4, d5, [x1], #16", "fmla v1.2d, v2.2d, v3.2d", "subs x4, x4, #1",
                "b.ne .L1", "str d1, [x1], #8", "sub x1, x1, #8", "fadd d1, d4, d5",
                "incd x4", "tst x4, x2", "csel x2, x4, x3, ne"],
}


# instructions whose analysis leaves traces in the model / semantics objects if anything does
# (pointer updates, store->load recurrences, one mnemonic in two vector shapes): kernels over
# these get objects of their own for every rotation
FRESH = {
    "x86": ["movq %rcx, (%rdi)", "addq $8, %rdi", "movq (%rdi), %rbx", "incq %rax",
            "movq %rax, 8(%rsp)", "movq 8(%rsp), %rdx", "subq $8, %rsp"],
    "aarch64": ["ldr d2, [x1]", "fadd d3, d2, d1", "str d3, [x1, #8]", "add x1, x1, #8",
                "subs x4, x4, #1", "b.ne .L1", "fdiv v6.2d, v6.2d, v7.2d",
                "fdiv v8.4s, v8.4s, v7.4s"],
}


def _rotations_real(item):
    isa, arch, idxs, flags = item[:4]
    fresh = len(item) > 4 and item[4]
    lines = [REAL[isa][i] for i in idxs]
    n = len(lines)
    out = {"bad": [], "n": 0, "sig": None}
    try:
        base = None
        for r in range(n):
            rot = lines[r:] + lines[:r]
            parser, kernel = dgfam.parsed_kernel(isa, rot)
            if fresh:
                # model and semantics objects of their own for every rotation: what one
                # analysis leaves behind in them must not level out the difference between cuts
                mm = drive.MachineModel(arch=arch)
                sem = drive.ArchSemantics(mm)
            else:
                mm, sem = _MODELS[arch]
            sem.add_semantics(kernel)
            g = drive.KernelDG(kernel, parser, mm, sem, timeout=-1, flag_dependencies=flags)
            sig = _lcd_sig(kernel, g, r, n)
            out["n"] += 1
            if base is None:
                base = sig
                out["sig"] = (tuple(sorted(sig[0])), sig[1])
            elif sig != base:
                out["bad"].append((r, "rotation by %d: cycles %s (LCD %s) != unrotated %s (LCD %s)"
                                   % (r, sorted(sig[0]), sig[1], sorted(base[0]), base[1])))
    except Exception:
        out["bad"].append((-1, traceback.format_exc()[-1200:]))
    return item, out


def _real_items(ctx, archs_x86, archs_a64):
    items = []
    for isa, archs in (("x86", archs_x86), ("aarch64", archs_a64)):
        n = len(REAL[isa])
        rng = list(range(n))
        ts = list(itertools.product(rng, repeat=2)) + list(itertools.product(rng, repeat=3))
        if ctx.thorough:
            ts += list(itertools.product(rng[::2], repeat=4))
        else:
            # the four-instruction shapes: store behind a write-back access behind its load
            ts += [t for t in itertools.product(rng[:6], repeat=4)]
        fi = [REAL[isa].index(x) for x in FRESH[isa]]
        fts = [t for L in (2, 3, 4) for t in itertools.permutations(fi, L)]
        for k, a in enumerate(archs):
            if k == 0 or ctx.thorough:
                items += [(isa, a, t, False, True) for t in fts]
            for t in (ts if k == 0 else ts[::5]):
                if len(set(t)) < len(t):
                    continue   # repeated lines are legal but add nothing here
                items.append((isa, a, t, False))
                if k == 0 and len(t) <= 3:
                    items.append((isa, a, t, True))
    return items


def run(ctx):
    res = core.Result()
    c05.setup(ctx, "c14")
    items = []
    for famname in c05._FAM:
        n = len(c05._ALPHA[famname])
        rng = list(range(n))
        two = [t for t in itertools.product(rng, repeat=2)]
        three = [t for t in itertools.product(rng if ctx.thorough else rng[::3], repeat=3)]
        four = [t for t in itertools.product(rng[::4], repeat=4)] if ctx.thorough else []
        for t in two + three + four:
            ris = [c05._ALPHA[famname][i][1] for i in t]
            has_flag = any(r.tag in c05.FLAG_MN for r in ris)
            items.append((famname, t, False))
            if has_flag:
                items.append((famname, t, True))
    import time
    t0 = time.time()
    out = core.pmap(_rotations_synth, core.rotate(items, ctx.seed))
    res.extra["synthetic_part_s"] = round(time.time() - t0, 1)
    for (famname, idxs, flags), o in out:
        res.states += 1
        res.traces += o["n"]
        res.transitions += max(0, o["n"] - 1)
        res.outcomes.add(o["sig"])
        if o["sig"] and o["sig"][0]:
            res.nontrivial += 1
        ris = [c05._ALPHA[famname][i][1] for i in idxs]
        for r, what in o["bad"]:
            res.violations.append(core.Violation(
                {"part": "synthetic", "isa": c05._FAM[famname].isa, "flags": flags,
                 "kind": "exception" if r < 0 else "differs"},
                "[%s flags=%s] kernel %r: %s" % (famname, flags, [x.text for x in ris], what),
                {"part": "synthetic", "family": famname, "idxs": list(idxs), "flags": flags,
                 "kernel": [x.text for x in ris], "what": what}))
    for (famname, idxs, flags), o in out[len(out) // 2: len(out) // 2 + 3]:
        res.add_sample({"family": famname, "flags": flags,
                        "kernel": [c05._ALPHA[famname][i][1].text for i in idxs],
                        "cycles(original indices, latency), LCD": o["sig"]})
    # shipped kernels x all rotation offsets
    archs_x86 = ["zen1"] if not ctx.thorough else drive.shipped_archs("x86")
    archs_a64 = ["tx2"] if not ctx.thorough else drive.shipped_archs("aarch64")
    names = archs_x86 + archs_a64
    drive.stage_and_parse(ctx, names + ["isa/x86", "isa/aarch64"])
    for a in names:
        mm = drive.MachineModel(arch=a)
        _MODELS[a] = (mm, drive.ArchSemantics(mm))
    # generated kernels of real instructions on the shipped ISA databases
    for isa in REAL:
        dgfam.warm_parse_cache(isa, REAL[isa])
    ritems = _real_items(ctx, archs_x86, archs_a64)
    t0 = time.time()
    rout = core.pmap(_rotations_real, core.rotate(ritems, ctx.seed))
    res.extra["real_isa_part_s"] = round(time.time() - t0, 1)
    res.extra["real_isa_kernels"] = len(ritems)
    for ritem, o in rout:
        isa, arch, idxs, flags = ritem[:4]
        res.states += 1
        res.traces += o["n"]
        res.transitions += max(0, o["n"] - 1)
        res.outcomes.add(o["sig"])
        if o["sig"] and o["sig"][0]:
            res.nontrivial += 1
        lines = [REAL[isa][i] for i in idxs]
        for r, what in o["bad"]:
            res.violations.append(core.Violation(
                {"part": "real-isa", "isa": isa, "flags": flags,
                 "kind": "exception" if r < 0 else "differs"},
                "[%s on %s flags=%s] kernel %r: %s" % (isa, arch, flags, lines, what),
                {"part": "real-isa", "isa": isa, "arch": arch, "idxs": list(idxs),
                 "flags": flags, "kernel": lines, "fresh": len(ritem) > 4, "what": what}))
    sitems = []
    max_lines = 10 ** 6 if ctx.thorough else 45
    for path, isa in c04.shipped_kernels():
        n = len(_body(path, isa))
        # quick: small bodies plus two bodies above the 50-line threshold of the multi-process search
        big_ok = os.path.basename(path) in ("gs.s.csx.gcc.s", "add.s.tx2.clang.s")
        if n > max_lines and not big_ok:
            continue
        for a in (archs_x86 if isa == "x86" else archs_a64):
            for flags in ((False, True) if ctx.thorough else (False,)):
                for r in range(n):
                    sitems.append((path, isa, a, flags, r))
    t0 = time.time()
    sout = core.pmap(_one_rotation_shipped, sitems, chunk=1)
    res.extra["shipped_part_s"] = round(time.time() - t0, 1)
    base = {}
    for (path, isa, arch, flags, r), sig, err in sout:
        if r == 0:
            base[(path, arch, flags)] = sig
    groups = set()
    for (path, isa, arch, flags, r), sig, err in sout:
        res.traces += 1
        groups.add((path, arch, flags))
        b = base.get((path, arch, flags))
        what = None
        if err:
            what = err
        elif r > 0:
            res.transitions += 1
            if sig != b:
                what = ("rotation by %d: cycles/LCD %s != unrotated %s"
                        % (r, sorted(set(sig[0]) ^ set(b[0])) if b else sig, b and b[1]))
        res.outcomes.add(sig)
        if what:
            res.violations.append(core.Violation(
                {"part": "shipped", "isa": isa, "flags": flags,
                 "kind": "exception" if err else "differs"},
                "[%s on %s flags=%s] %s" % (os.path.relpath(path, core.REPO), arch, flags, what),
                {"part": "shipped", "path": path, "isa": isa, "arch": arch, "flags": flags,
                 "rotation": r, "what": what}))
    res.states += len(groups)
    res.nontrivial += len(groups)
    if sout:
        (path, isa, arch, flags, r), sig, err = sout[0]
        res.add_sample({"kernel_file": os.path.relpath(path, core.REPO), "arch": arch,
                        "rotation": r, "cycles, LCD": sig})
    res.evaluations = res.traces
    res.extra["shipped_rotations"] = len(sitems)
    res.rule = ("every rotation offset of every kernel: generated kernels of length 2-3 (thorough: 4) "
                "over the C05 alphabet (register, flag, write-back dependencies) on synthetic models "
                "generated kernels of length 2-4 over 18 real instructions per ISA on the shipped ISA "
                "databases (implicit-operand instructions, stack accesses, write-back addressing, "
                "store/load pairs) "
                "and the marked bodies of all shipped example / test kernels on shipped models of "
                "the ISA; differential oracle: cycles (member instructions mapped back to original "
                "positions, latency) and LCD figure equal those of rotation 0; non-trivial = at "
                "least one cycle")
    res.bounds = {"rotation_offsets": "all", "kernel_length": 4 if ctx.thorough else 3}
    res.assumptions = ["differential oracle only (no hand-written expectation)"]
    return res


def replay(ctx, payload):
    r = payload["replay"]
    if r["part"] == "synthetic":
        c05.setup(ctx, "c14")
        _, o = _rotations_synth((r["family"], tuple(r["idxs"]), r["flags"]))
    elif r["part"] == "real-isa":
        drive.stage_and_parse(ctx, [r["arch"], "isa/x86", "isa/aarch64"])
        mm = drive.MachineModel(arch=r["arch"])
        _MODELS[r["arch"]] = (mm, drive.ArchSemantics(mm))
        idxs = tuple(REAL[r["isa"]].index(l) for l in r["kernel"])
        _, o = _rotations_real((r["isa"], r["arch"], idxs, r["flags"], bool(r.get("fresh"))))
    else:
        drive.stage_and_parse(ctx, [r["arch"], "isa/x86", "isa/aarch64"])
        mm = drive.MachineModel(arch=r["arch"])
        _MODELS[r["arch"]] = (mm, drive.ArchSemantics(mm))
        _, s0, e0 = _one_rotation_shipped((r["path"], r["isa"], r["arch"], r["flags"], 0))
        _, s1, e1 = _one_rotation_shipped((r["path"], r["isa"], r["arch"], r["flags"],
                                           r["rotation"]))
        print("rotation 0:", s0, e0)
        print("rotation %d:" % r["rotation"], s1, e1)
        return 0 if (s0 == s1 and not e0 and not e1) else 1
    for b in o["bad"]:
        print(b)
    return 1 if o["bad"] else 0
