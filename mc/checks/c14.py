"""C14 - loop-carried dependencies are invariant under rotation of the loop body."""
import itertools
import os
import traceback

from mc import core, drive, dgfam
from mc.checks import c04, c05

LEVEL = "model_checking"
_MODELS = {}


def _lcd_sig(kernel, g, rot, n):
    """set of (sorted original indices of members, total latency), LCD figure"""
    pos = {k.line_number: i for i, k in enumerate(kernel)}
    deps = g.get_loopcarried_dependencies()
    s = set()
    for v in deps.values():
        members = tuple(sorted((pos[i.line_number] + rot) % n for i, _ in v["dependencies"]))
        s.add((members, round(float(v["latency"]), 6)))
    mx = max((l for _, l in s), default=0.0)
    return s, mx


def _rotations_synth(item):
    famname, idxs, flags = item
    fam = c05._FAM[famname]
    ris = [c05._ALPHA[famname][i][1] for i in idxs]
    n = len(ris)
    out = {"bad": [], "n": 0, "sig": None}
    try:
        base = None
        for r in range(n):
            rot = ris[r:] + ris[:r]
            kernel, g = dgfam.observe(fam, rot, flags)
            sig = _lcd_sig(kernel, g, r, n)
            out["n"] += 1
            if base is None:
                base = sig
                out["sig"] = (tuple(sorted(sig[0])), sig[1])
            elif sig != base:
                out["bad"].append((r, "rotation by %d: cycles %s (LCD %s) != unrotated %s (LCD %s)"
                                   % (r, sorted(sig[0]), sig[1], sorted(base[0]), base[1])))
    except Exception:
        out["bad"].append((-1, traceback.format_exc()[-1200:]))
    return item, out


_BODY = {}


def _body(path, isa):
    if path not in _BODY:
        from osaca.semantics import reduce_to_section
        parser = drive.get_parser(isa)
        with open(path) as f:
            code = f.read()
        _BODY[path] = [k.line for k in reduce_to_section(parser.parse_file(code), isa)]
    return _BODY[path]


def _one_rotation_shipped(item):
    path, isa, arch, flags, r = item
    try:
        mm, sem = _MODELS[arch]
        parser = drive.get_parser(isa)
        lines = _body(path, isa)
        n = len(lines)
        rot = lines[r:] + lines[:r]
        kernel = parser.parse_file("\n".join(rot) + "\n")
        sem.add_semantics(kernel)
        g = drive.KernelDG(kernel, parser, mm, sem, timeout=-1, flag_dependencies=flags)
        s, mx = _lcd_sig(kernel, g, r, n)
        return item, (tuple(sorted(s)), mx), None
    except Exception:
        return item, None, traceback.format_exc()[-1200:]


def run(ctx):
    res = core.Result()
    c05.setup(ctx, "c14")
    items = []
    for famname in c05._FAM:
        n = len(c05._ALPHA[famname])
        rng = list(range(n))
        two = [t for t in itertools.product(rng, repeat=2)]
        three = [t for t in itertools.product(rng if ctx.thorough else rng[::3], repeat=3)]
        four = [t for t in itertools.product(rng[::4], repeat=4)] if ctx.thorough else []
        for t in two + three + four:
            ris = [c05._ALPHA[famname][i][1] for i in t]
            has_flag = any(r.tag in c05.FLAG_MN for r in ris)
            items.append((famname, t, False))
            if has_flag:
                items.append((famname, t, True))
    import time
    t0 = time.time()
    out = core.pmap(_rotations_synth, core.rotate(items, ctx.seed))
    res.extra["synthetic_part_s"] = round(time.time() - t0, 1)
    for (famname, idxs, flags), o in out:
        res.states += 1
        res.traces += o["n"]
        res.transitions += max(0, o["n"] - 1)
        res.outcomes.add(o["sig"])
        if o["sig"] and o["sig"][0]:
            res.nontrivial += 1
        ris = [c05._ALPHA[famname][i][1] for i in idxs]
        for r, what in o["bad"]:
            res.violations.append(core.Violation(
                {"part": "synthetic", "isa": c05._FAM[famname].isa, "flags": flags,
                 "kind": "exception" if r < 0 else "differs"},
                "[%s flags=%s] kernel %r: %s" % (famname, flags, [x.text for x in ris], what),
                {"part": "synthetic", "family": famname, "idxs": list(idxs), "flags": flags,
                 "kernel": [x.text for x in ris], "what": what}))
    for (famname, idxs, flags), o in out[len(out) // 2: len(out) // 2 + 3]:
        res.add_sample({"family": famname, "flags": flags,
                        "kernel": [c05._ALPHA[famname][i][1].text for i in idxs],
                        "cycles(original indices, latency), LCD": o["sig"]})
    # shipped kernels x all rotation offsets
    archs_x86 = ["zen1"] if not ctx.thorough else drive.shipped_archs("x86")
    archs_a64 = ["tx2"] if not ctx.thorough else drive.shipped_archs("aarch64")
    names = archs_x86 + archs_a64
    drive.stage_and_parse(ctx, names + ["isa/x86", "isa/aarch64"])
    for a in names:
        mm = drive.MachineModel(arch=a)
        _MODELS[a] = (mm, drive.ArchSemantics(mm))
    sitems = []
    max_lines = 10 ** 6 if ctx.thorough else 45
    for path, isa in c04.shipped_kernels():
        n = len(_body(path, isa))
        # quick: small bodies plus two bodies above the 50-line threshold of the multi-process search
        big_ok = os.path.basename(path) in ("gs.s.csx.gcc.s", "add.s.tx2.clang.s")
        if n > max_lines and not big_ok:
            continue
        for a in (archs_x86 if isa == "x86" else archs_a64):
            for flags in ((False, True) if ctx.thorough else (False,)):
                for r in range(n):
                    sitems.append((path, isa, a, flags, r))
    t0 = time.time()
    sout = core.pmap(_one_rotation_shipped, sitems, chunk=1)
    res.extra["shipped_part_s"] = round(time.time() - t0, 1)
    base = {}
    for (path, isa, arch, flags, r), sig, err in sout:
        if r == 0:
            base[(path, arch, flags)] = sig
    groups = set()
    for (path, isa, arch, flags, r), sig, err in sout:
        res.traces += 1
        groups.add((path, arch, flags))
        b = base.get((path, arch, flags))
        what = None
        if err:
            what = err
        elif r > 0:
            res.transitions += 1
            if sig != b:
                what = ("rotation by %d: cycles/LCD %s != unrotated %s"
                        % (r, sorted(set(sig[0]) ^ set(b[0])) if b else sig, b and b[1]))
        res.outcomes.add(sig)
        if what:
            res.violations.append(core.Violation(
                {"part": "shipped", "isa": isa, "flags": flags,
                 "kind": "exception" if err else "differs"},
                "[%s on %s flags=%s] %s" % (os.path.relpath(path, core.REPO), arch, flags, what),
                {"part": "shipped", "path": path, "isa": isa, "arch": arch, "flags": flags,
                 "rotation": r, "what": what}))
    res.states += len(groups)
    res.nontrivial += len(groups)
    if sout:
        (path, isa, arch, flags, r), sig, err = sout[0]
        res.add_sample({"kernel_file": os.path.relpath(path, core.REPO), "arch": arch,
                        "rotation": r, "cycles, LCD": sig})
    res.evaluations = res.traces
    res.extra["shipped_rotations"] = len(sitems)
    res.rule = ("every rotation offset of every kernel: generated kernels of length 2-3 (thorough: 4) "
                "over the C05 alphabet (register, flag, write-back dependencies) on synthetic models "
                "and the marked bodies of all shipped example / test kernels on shipped models of "
                "the ISA; differential oracle: cycles (member instructions mapped back to original "
                "positions, latency) and LCD figure equal those of rotation 0; non-trivial = at "
                "least one cycle")
    res.bounds = {"rotation_offsets": "all", "kernel_length": 4 if ctx.thorough else 3}
    res.assumptions = ["differential oracle only (no hand-written expectation)"]
    return res


def replay(ctx, payload):
    r = payload["replay"]
    if r["part"] == "synthetic":
        c05.setup(ctx, "c14")
        _, o = _rotations_synth((r["family"], tuple(r["idxs"]), r["flags"]))
    else:
        drive.stage_and_parse(ctx, [r["arch"], "isa/x86", "isa/aarch64"])
        mm = drive.MachineModel(arch=r["arch"])
        _MODELS[r["arch"]] = (mm, drive.ArchSemantics(mm))
        _, s0, e0 = _one_rotation_shipped((r["path"], r["isa"], r["arch"], r["flags"], 0))
        _, s1, e1 = _one_rotation_shipped((r["path"], r["isa"], r["arch"], r["flags"],
                                           r["rotation"]))
        print("rotation 0:", s0, e0)
        print("rotation %d:" % r["rotation"], s1, e1)
        return 0 if (s0 == s1 and not e0 and not e1) else 1
    for b in o["bad"]:
        print(b)
    return 1 if o["bad"] else 0
