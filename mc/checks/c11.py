"""C11 - kernel selection is exact and non-instruction lines are transparent."""
import itertools
import os
import traceback

from mc import core, drive, dgfam
from mc.ref import report as RP

LEVEL = "model_checking"

BODIES = {
    "x86": [
        [".L1:", "vmovapd (%rax,%rcx,8), %ymm0", "vaddpd %ymm0, %ymm1, %ymm1",
         "vmovapd %ymm1, (%rbx,%rcx,8)", "addq $4, %rcx", "cmpq %rdx, %rcx", "jb .L1"],
        ["vmulpd %xmm0, %xmm1, %xmm2", "vaddpd %xmm2, %xmm3, %xmm3", "incq %rax"],
        ["movl $111, %ecx", "addq %rcx, %rdx", "movl $222, %eax", "subq $1, %rsi", "jne .L9"],
    ],
    "aarch64": [
        [".L2:", "ldr q0, [x1, x3]", "fadd v1.2d, v1.2d, v0.2d", "str q1, [x2, x3]",
         "add x3, x3, #16", "cmp x3, x4", "b.ne .L2"],
        ["fmul v2.2d, v0.2d, v1.2d", "fadd v3.2d, v3.2d, v2.2d", "add x5, x5, #1"],
        ["mov x2, #111", "add x3, x2, x3", "mov x4, #222", "subs x6, x6, #1", "b.ne .L9"],
    ],
}


def marker(isa, which, style):
    """lines of the start/end marker in a given style"""
    v = 111 if which == "start" else 222
    if style == "comment":
        c = "#" if isa == "x86" else "//"
        return ["%s OSACA-%s" % (c, "BEGIN" if which == "start" else "END")]
    if isa == "x86":
        mov = "movl $%d, %%ebx" % v
        bytes_ = [100, 103, 144]
    else:
        mov = "mov x1, #%d" % v
        bytes_ = [213, 3, 32, 31]
    if style == "one":
        return [mov, ".byte " + ",".join(map(str, bytes_))]
    if style == "multi":
        return [mov] + [".byte %d" % b for b in bytes_]
    if style == "spaced":
        return ["\t" + mov + "  ", "        .byte   " + ", ".join(map(str, bytes_))]
    raise ValueError(style)


def decoys(isa):
    c = "#" if isa == "x86" else "//"
    if isa == "x86":
        return [
            ["addq $1, %r9"],
            ["movl $111, %ebp", ".byte 100,103,144"],  # other register, genuine bytes
            ["movl $112, %ebx", ".byte 100,103,144"],  # other value, genuine bytes
            ["movl $111, %ebx", ".align 16"],         # marker mov + a directive that is no .byte
            ["movl $222, %ebx", ".byte 100,103"],     # truncated byte sequence
            ["movl $111, %ebx", "addq $1, %r9"],      # marker mov not followed by a directive
            [c + " just a comment"],
            [".Lx:"],
            # a register that merely overlaps the marker register, genuine value and bytes
            ["movq $111, %rbx", ".byte 100,103,144"],
            ["mov $222, %bx", ".byte 100,103,144"],
        ]
    return [
        ["add x9, x9, #1"],
        ["mov x11, #111", ".byte 213,3,32,31"],
        ["mov x1, #112", ".byte 213,3,32,31"],
        ["mov x1, #111", ".align 4"],
        ["mov x1, #222", ".byte 213,3,32"],
        ["mov x1, #111", "add x9, x9, #1"],
        [c + " just a comment"],
        [".Lx:"],
        ["mov w1, #111", ".byte 213,3,32,31"],
        ["mov w1, #222", ".byte 213,3,32,31"],
    ]


def build_file(pro, start, body, end, epi):
    lines = []
    for chunk in pro:
        lines += chunk
    lines += start
    b0 = len(lines) + 1
    lines += body
    b1 = len(lines)
    lines += end
    for chunk in epi:
        lines += chunk
    return lines, b0, b1


def detect_case(item):
    isa, bi, style, pi, ei = item
    D = decoys(isa)
    pros = [[]] + [[d] for d in D] + [[a, b] for a, b in itertools.product(D, repeat=2)]
    pro, epi = pros[pi], pros[ei]
    body = BODIES[isa][bi]
    mode = style
    mstyle = style if style in ("one", "multi", "spaced", "comment") else "one"
    st = marker(isa, "start", mstyle) if style not in ("only-end", "none") else []
    en = marker(isa, "end", mstyle) if style not in ("only-start", "none") else []
    lines, b0, b1 = build_file(pro, st, body, en, epi)
    n = len(lines)
    if mode == "only-start":
        exp = list(range(b0, n + 1))
    elif mode == "only-end":
        exp = list(range(1, b1 + 1))
    elif mode == "none":
        exp = list(range(1, n + 1))
    else:
        exp = list(range(b0, b1 + 1))
    try:
        from osaca.semantics import reduce_to_section
        parser, parsed = dgfam.parsed_kernel(isa, lines)
        got = [k.line_number for k in reduce_to_section(parsed, isa)]
    except Exception:
        return item, ("exception", traceback.format_exc()[-800:], lines)
    if got != exp:
        return item, ("slice", "kernel lines %r, expected %r (lines strictly between the markers)"
                      % (got, exp), lines)
    return item, None


# ------------------------------------------------------------------------------------------
# --lines grammar

def ref_line_set(spec):
    s = set()
    for item in spec.split(","):
        for sep in ("-", ":"):
            if sep in item:
                a, b = item.split(sep)
                s |= set(range(int(a), int(b) + 1))
                break
        else:
            s.add(int(item))
    return s


def line_numbers(maxn):
    """line numbers of the alphabet: small ones plus numbers with more digits (8 < 10 < 100 as
    numbers, not as strings)"""
    return list(range(1, maxn + 1)) + [9, 10, 11, 100]


def lines_specs(maxn, maxitems):
    nums = line_numbers(maxn)
    items = [str(a) for a in nums]
    for i, a in enumerate(nums):
        for b in nums[i:]:
            items.append("%d-%d" % (a, b))
            items.append("%d:%d" % (a, b))
    for k in range(1, maxitems + 1):
        for t in itertools.product(items, repeat=k):
            yield ",".join(t)


def lines_chunk(item):
    lo, hi, maxn, maxitems = item
    from osaca.osaca import get_line_range
    bad = []
    n = 0
    for k, spec in enumerate(lines_specs(maxn, maxitems)):
        if k < lo:
            continue
        if k >= hi:
            break
        n += 1
        try:
            got = set(get_line_range(spec))
        except Exception as e:
            bad.append((spec, "exception %s" % e))
            continue
        exp = ref_line_set(spec)
        if got != exp:
            bad.append((spec, "selects %r, expected %r" % (sorted(got), sorted(exp))))
    return item, (n, bad[:20])


# ------------------------------------------------------------------------------------------
# end-to-end equality of variants

def _report_sig(text, keep=None):
    """instruction rows (cells, cp, lcd, flags, text) in order + summary + LCD list with members
    expressed as instruction-row positions"""
    r = RP.parse(text)
    rows = []
    pos = {}
    for row in r.rows:
        t = row["text"].strip()
        if keep is not None and t not in keep:
            continue
        pos[row["line_number"]] = len(rows)
        rows.append((tuple(row["cells"]), row["cp"], row["lcd"], row["flags"], t))
    lcd = sorted((l["latency"], tuple(pos.get(m, -1) for m in l["members"])) for l in r.lcd_list)
    return rows, r.summary, lcd, r.missing


def e2e_case(item):
    isa, arch, bi, variant = item
    body = BODIES[isa][bi]
    c = "#" if isa == "x86" else "//"
    pro = ["addq $1, %r9" if isa == "x86" else "add x9, x9, #1", c + " prologue"]
    epi = ["addq $2, %r9" if isa == "x86" else "add x9, x9, #2"]
    keep = set(body)
    kind, arg = variant
    lines_opt = None
    if kind == "marked":
        lines, b0, b1 = build_file([pro], marker(isa, "start", arg), body,
                                   marker(isa, "end", arg), [epi])
    elif kind == "lines":
        lines, b0, b1 = build_file([pro], [], body, [], [epi])
        lines_opt = arg.replace("L", str(b0)).replace("M", str(b1)).replace(
            "K", str(b0 + 2)).replace("J", str(b0 + 1))
    elif kind == "linesff":
        # page-break (form feed) and blank-with-tab lines in front of the kernel: they are white
        # space for the assembler and must not shift the numbering --lines refers to
        lines, b0, b1 = build_file([pro, ["\f", " \t "]], [], body, [], [epi])
        lines_opt = arg.replace("L", str(b0)).replace("M", str(b1))
    elif kind in ("markeddeep", "linesdeep"):
        # the kernel 1500 lines into the file (line numbers beyond 1000)
        deep = [c + " deep %d" % k for k in range(1500)]
        if kind == "markeddeep":
            lines, b0, b1 = build_file([pro, deep], marker(isa, "start", arg), body,
                                       marker(isa, "end", arg), [epi])
        else:
            lines, b0, b1 = build_file([pro, deep], [], body, [], [epi])
            lines_opt = arg.replace("L", str(b0)).replace("M", str(b1))
    elif kind == "only":
        lines, b0, b1 = list(body), 1, len(body)
    elif kind == "noise":
        what, posn = arg
        if what == "comment50":
            noise = [c + " noise %d" % k for k in range(50)]
        elif what == "mixed60":
            noise = [[c + " n%d" % k, ".Ln%d:" % k, ".p2align 4"][k % 3] for k in range(60)]
        else:
            noise = [{"comment": c + " noise", "label": ".Lnoise:", "directive": ".p2align 4",
                      "blank": "", "formfeed": "\f"}[what]]
        nb = body[:posn] + noise + body[posn:]
        lines, b0, b1 = build_file([pro], marker(isa, "start", "one"), nb,
                                   marker(isa, "end", "one"), [epi])
    path = os.path.join(_E2E["dir"], "k_%s_%d_%s_%s.s" % (isa, bi, kind, abs(hash(str(arg)))))
    with open(path, "w") as f:
        f.write("\n".join(lines) + "\n")
    try:
        text = drive.run_cli_inprocess(path, arch=arch, lines=lines_opt)
        return item, (_report_sig(text, keep), None)
    except Exception:
        return item, (None, traceback.format_exc()[-1200:])


_E2E = {}


def run(ctx):
    res = core.Result()
    # (a) marker detection
    for isa in ("x86", "aarch64"):
        D = decoys(isa)
        texts = {l for b in BODIES[isa] for l in b} | {l for d in D for l in d}
        for st in ("one", "multi", "spaced", "comment"):
            texts |= set(marker(isa, "start", st)) | set(marker(isa, "end", st))
        dgfam.warm_parse_cache(isa, sorted(texts))
    npros = 1 + 10 + 100
    styles = ["one", "multi", "spaced", "comment", "only-start", "only-end", "none"]
    items = []
    for isa in ("x86", "aarch64"):
        for bi in range(3):
            for style in styles:
                if ctx.thorough:
                    pe = itertools.product(range(npros), range(npros))
                else:
                    pe = [(p, e) for p in range(npros) for e in range(npros)
                          if p < 11 or e < 11]
                items += [(isa, bi, style, p, e) for p, e in pe]
    out = core.pmap(detect_case, core.rotate(items, ctx.seed))
    for item, bad in out:
        res.states += 1
        res.traces += 1
        res.transitions += 1
        res.nontrivial += 1 if (item[3] or item[4]) else 0
        res.outcomes.add((item[2], bad is None))
        if bad:
            kind, what, lines = bad
            res.violations.append(core.Violation(
                {"part": "markers", "kind": kind, "isa": item[0], "style": item[2]},
                "[%s %s] file %r: %s" % (item[0], item[2], lines, what),
                {"part": "markers", "item": list(item), "file": lines, "what": what}))
    it0 = items[len(items) // 3]
    res.add_sample({"marker_case(isa, body, style, prologue#, epilogue#)": list(it0)})
    # (b) --lines grammar
    maxn, maxitems = (5, 3) if ctx.thorough else (3, 3)
    nn = len(line_numbers(maxn))
    nitems = nn + nn * (nn + 1)
    total = sum(nitems ** k for k in range(1, maxitems + 1))
    step = max(1, total // 64 + 1)
    chunks = [(lo, min(total, lo + step), maxn, maxitems) for lo in range(0, total, step)]
    lout = core.pmap(lines_chunk, chunks, chunk=1)
    for item, (n, bad) in lout:
        res.states += n
        res.traces += n
        res.transitions += n
        for spec, what in bad:
            res.violations.append(core.Violation(
                {"part": "lines-grammar", "kind": "set"},
                "--lines %r %s" % (spec, what), {"part": "lines-grammar", "spec": spec,
                                                 "what": what}))
    res.add_sample({"--lines": "3,1-2,5:6", "selects": sorted(ref_line_set("3,1-2,5:6"))})
    # (c) end-to-end: marked / --lines / extracted / noise give identical numbers
    archs = {"x86": ["zen1"], "aarch64": ["n1"]}
    if ctx.thorough:
        archs = {"x86": drive.shipped_archs("x86"), "aarch64": drive.shipped_archs("aarch64")}
    names = archs["x86"] + archs["aarch64"]
    drive.stage_and_parse(ctx, names + ["isa/x86", "isa/aarch64"])
    _E2E["dir"] = ctx.sub("c11files")
    eitems = []
    for isa in ("x86", "aarch64"):
        for arch in archs[isa]:
            for bi in range(3):
                vs = [("marked", "one"), ("marked", "multi"), ("marked", "comment"),
                      ("lines", "L-M"), ("lines", "L:M"), ("lines", "L,J-M"), ("lines", "K-M,L-J"),
                      ("lines", "L-K,K-M"), ("lines", "M,L-M"), ("linesff", "L-M"),
                      ("markeddeep", "one"), ("linesdeep", "L-M"), ("only", None)]
                for what in ("comment", "label", "directive", "blank", "formfeed"):
                    for posn in range(len(BODIES[isa][bi]) + 1):
                        vs.append(("noise", (what, posn)))
                # enough noise lines to lift the kernel over the 50-line threshold of the
                # multi-process dependency search
                vs.append(("noise", ("comment50", 1)))
                vs.append(("noise", ("mixed60", len(BODIES[isa][bi]) - 1)))
                eitems += [(isa, arch, bi, v) for v in vs]
    eout = core.pmap(e2e_case, eitems, chunk=4)
    base = {}
    for (isa, arch, bi, v), (sig, err) in eout:
        if v == ("marked", "one"):
            base[(isa, arch, bi)] = sig
    for (isa, arch, bi, v), (sig, err) in eout:
        res.states += 1
        res.traces += 1
        res.transitions += 1
        res.nontrivial += 1
        b = base.get((isa, arch, bi))
        what = None
        if err:
            what = err
        elif sig != b:
            what = "numbers differ from the marked file: %r vs %r" % (sig, b)
        res.outcomes.add(("e2e", what is None))
        if what:
            res.violations.append(core.Violation(
                {"part": "e2e", "kind": "exception" if err else "differs", "isa": isa,
                 "variant": v[0], "noise": v[1][0] if v[0] == "noise" else ""},
                "[%s body %d variant %r] %s" % (arch, bi, v, what[:600]),
                {"part": "e2e", "isa": isa, "arch": arch, "body": bi, "variant": list(v),
                 "what": what[:2000]}))
    res.add_sample({"e2e_variant": ["lines", "K-M,L-J"], "meaning": "two ranges in descending "
                    "order naming exactly the marked lines"})
    res.evaluations = res.states
    res.extra = {"marker_files": len(items), "lines_specs": total, "e2e_runs": len(eitems)}
    res.rule = ("(a) all files prologue(<=2 decoy chunks) + start marker + body + end marker + "
                "epilogue(<=2 chunks) over 10 decoys (other register, a register that only overlaps the marker register, other value, marker mov + non-"
                ".byte directive, truncated bytes, marker mov + instruction, comment, label) x 7 "
                "marker styles x 3 bodies x 2 ISAs (quick: one side <= 1 chunk); (b) every --lines "
                "string of <= 3 items over line numbers {1..3 (thorough 1..5), 9, 10, 11, 100}; (c) marked / --lines "
                "(incl. descending and overlapping pieces) / extracted-only / noise-line variants "
                "through the real CLI entry point give identical per-instruction and summary numbers")
    res.assumptions = ["the decoys are look-alikes by construction (mc/checks/c11.py)",
                       "reports compared through mc/ref/report.py modulo line numbers"]
    return res


def replay(ctx, payload):
    r = payload["replay"]
    if r["part"] == "markers":
        for isa in ("x86", "aarch64"):
            pass
        _, bad = detect_case(tuple(r["item"]))
        print(bad)
        return 1 if bad else 0
    if r["part"] == "lines-grammar":
        from osaca.osaca import get_line_range
        got = set(get_line_range(r["spec"]))
        print(sorted(got), sorted(ref_line_set(r["spec"])))
        return 0 if got == ref_line_set(r["spec"]) else 1
    drive.stage_and_parse(ctx, [r["arch"], "isa/x86", "isa/aarch64"])
    _E2E["dir"] = ctx.sub("c11files")
    v = tuple(r["variant"])
    if v[0] == "noise":
        v = ("noise", tuple(v[1]))
    _, (s0, e0) = e2e_case((r["isa"], r["arch"], r["body"], ("marked", "one")))
    _, (s1, e1) = e2e_case((r["isa"], r["arch"], r["body"], v))
    print(e0 or "", e1 or "")
    return 0 if (s0 == s1 and not e0 and not e1) else 1
