"""C06 - store-to-load dependencies through provably equal addresses on both ISAs."""
import itertools
import traceback

from mc import core, drive, dgfam
from mc.ref import dg as RD
from mc.ref import regs as RR

LEVEL = "model_checking"
_MODELS = {}


def R(isa, name):
    c = RR.class_of(isa, name)
    assert c, name
    return c


# ------------------------------------------------------------------------------------------
# x86 alphabet

def x86_mem(base, index, scale, disp):
    s = "" if disp is None else str(disp)
    s += "(%" + base
    if index:
        s += ",%" + index
        if scale is not None:
            s += "," + str(scale)
    s += ")"
    return s


def x86_shapes():
    """(base, index, scale, disp) shapes; data regs rcx/rdx; address regs rax, rbx, rsi"""
    out = []
    for disp in (None, 8, -8, 16):
        out.append(("rax", None, 1, disp))
    for disp in (None, 8):
        out.append(("rax", "rbx", 1, disp))
        out.append(("rax", "rbx", 8, disp))
    out.append(("rsi", None, 1, 8))        # different base
    out.append(("rax", "rsi", 8, 8))       # different index
    return out


def x86_store(shape):
    b, i, s, d = shape
    t = "movq %rcx, " + x86_mem(b, i, s if i else None, d)
    m = RD.MemRef(R("x86", b), R("x86", i) if i else None, s, d or 0, text=t.split(", ", 1)[1])
    reads = {R("x86", "rcx"), R("x86", b)} | ({R("x86", i)} if i else set())
    return RD.RI(t, reads, set(), stores=[m], tag="store")


def x86_rmw_store(shape):
    """read-modify-write store: several destination operands (memory + flags)"""
    b, i, s, d = shape
    t = "addq %rcx, " + x86_mem(b, i, s if i else None, d)
    m = RD.MemRef(R("x86", b), R("x86", i) if i else None, s, d or 0, text=t.split(", ", 1)[1])
    reads = {R("x86", "rcx"), R("x86", b)} | ({R("x86", i)} if i else set())
    fl = {("flag", f) for f in ("CF", "OF", "SF", "ZF", "AF", "PF")}
    return RD.RI(t, reads, fl, stores=[m], loads=[m], tag="store")


def x86_load(shape, dst="rdx"):
    b, i, s, d = shape
    t = "movq " + x86_mem(b, i, s if i else None, d) + ", %" + dst
    m = RD.MemRef(R("x86", b), R("x86", i) if i else None, s, d or 0, text=None)
    reads = {R("x86", b)} | ({R("x86", i)} if i else set())
    return RD.RI(t, reads, {R("x86", dst)}, loads=[m], tag="load")


def x86_bumps():
    out = []
    for reg in ("rax", "rbx"):
        r = R("x86", reg)
        fl = {("flag", f) for f in ("CF", "OF", "SF", "ZF", "AF", "PF")}
        out.append(RD.RI("addq $8, %" + reg, {r}, {r} | fl, post_changes={r: ("add", 8)}, tag="bump"))
        out.append(RD.RI("subq $8, %" + reg, {r}, {r} | fl, post_changes={r: ("add", -8)}, tag="bump"))
        out.append(RD.RI("incq %" + reg, {r}, {r} | fl, post_changes={r: ("add", 1)}, tag="bump"))
        out.append(RD.RI("decq %" + reg, {r}, {r} | fl, post_changes={r: ("add", -1)}, tag="bump"))
        out.append(RD.RI("imulq %rcx, %" + reg, {r, R("x86", "rcx")}, {r} | fl,
                         post_changes={r: None}, tag="untracked"))
    # register copies: address formed through the copy afterwards
    out.append(RD.RI("movq %rax, %rsi", {R("x86", "rax")}, {R("x86", "rsi")},
                     post_changes={R("x86", "rsi"): ("copy", R("x86", "rax"))}, tag="copy"))
    out.append(RD.RI("movq %rsi, %rax", {R("x86", "rsi")}, {R("x86", "rax")},
                     post_changes={R("x86", "rax"): ("copy", R("x86", "rsi"))}, tag="copy"))
    return out


# ------------------------------------------------------------------------------------------
# AArch64 alphabet

def a64_mem(base, index, shift, disp, mode):
    if mode == "pre":
        return "[%s, #%d]!" % (base, disp)
    if mode == "post":
        return "[%s], #%d" % (base, disp)
    if index:
        if shift:
            return "[%s, %s, lsl #%d]" % (base, index, shift)
        return "[%s, %s]" % (base, index)
    if disp is None:
        return "[%s]" % base
    return "[%s, #%d]" % (base, disp)


def a64_shapes():
    out = []
    for disp in (None, 8, -8, 16):
        out.append(("x2", None, 0, disp, "off"))
    out.append(("x2", "x3", 0, None, "off"))
    out.append(("x2", "x3", 3, None, "off"))
    out.append(("x6", None, 0, 8, "off"))      # different base
    out.append(("x2", "x6", 3, None, "off"))   # different index
    out.append(("x2", None, 0, 8, "pre"))
    out.append(("x2", None, 0, 8, "post"))
    return out


def _a64_ref(shape, text):
    b, i, sh, d, mode = shape
    rb = R("aarch64", b)
    if mode == "pre":
        return RD.MemRef(rb, None, 1, 0, text), {rb: ("add", d)}, {}
    if mode == "post":
        return RD.MemRef(rb, None, 1, 0, text), {}, {rb: ("add", d)}
    return RD.MemRef(rb, R("aarch64", i) if i else None, 2 ** sh, d or 0, text), {}, {}


def a64_store(shape):
    b, i, sh, d, mode = shape
    mt = a64_mem(b, i, sh, d, mode)
    t = "str x1, " + mt
    m, ch, pch = _a64_ref(shape, mt)
    reads = {R("aarch64", "x1"), R("aarch64", b)} | ({R("aarch64", i)} if i else set())
    wr = {R("aarch64", b)} if mode in ("pre", "post") else set()
    return RD.RI(t, reads, wr, wb=wr, stores=[m], changes=ch, post_changes=pch, tag="store")


def a64_load(shape, dst="x4"):
    b, i, sh, d, mode = shape
    mt = a64_mem(b, i, sh, d, mode)
    t = "ldr %s, %s" % (dst, mt)
    m, ch, pch = _a64_ref(shape, None)
    reads = {R("aarch64", b)} | ({R("aarch64", i)} if i else set())
    wr = {R("aarch64", dst)}
    wbs = {R("aarch64", b)} if mode in ("pre", "post") else set()
    return RD.RI(t, reads, wr | wbs, wb=wbs, loads=[m], changes=ch, post_changes=pch, tag="load")


def a64_bumps():
    out = []
    A = "aarch64"
    for reg in ("x2", "x3"):
        r = R(A, reg)
        out.append(RD.RI("add %s, %s, #8" % (reg, reg), {r}, {r}, post_changes={r: ("add", 8)},
                         tag="bump"))
        out.append(RD.RI("sub %s, %s, #8" % (reg, reg), {r}, {r}, post_changes={r: ("add", -8)},
                         tag="bump"))
        if reg == "x2":
            # flag-setting variants carry the same constant change
            out.append(RD.RI("adds x2, x2, #8", {r}, {r}, post_changes={r: ("add", 8)}, tag="bump"))
            out.append(RD.RI("subs x2, x2, #8", {r}, {r}, post_changes={r: ("add", -8)},
                             tag="bump"))
        out.append(RD.RI("mul %s, %s, x1" % (reg, reg), {r, R(A, "x1")}, {r},
                         post_changes={r: None}, tag="untracked"))
    out.append(RD.RI("mov x6, x2", {R(A, "x2")}, {R(A, "x6")},
                     post_changes={R(A, "x6"): ("copy", R(A, "x2"))}, tag="copy"))
    out.append(RD.RI("add x6, x2, #8", {R(A, "x2")}, {R(A, "x6")},
                     post_changes={R(A, "x6"): ("copy", R(A, "x2"), 8)}, tag="copy"))
    out.append(RD.RI("sub x6, x2, #8", {R(A, "x2")}, {R(A, "x6")},
                     post_changes={R(A, "x6"): ("copy", R(A, "x2"), -8)}, tag="copy"))
    # a post-/pre-indexed access to another location in between also bumps the pointer
    out.append(a64_load(("x2", None, 0, 8, "post"), dst="x7"))
    out.append(a64_load(("x2", None, 0, 8, "pre"), dst="x7"))
    return out


# ------------------------------------------------------------------------------------------

def kernels(isa, max_bumps, thorough):
    if isa == "x86":
        shapes, st, ld, bumps = x86_shapes(), x86_store, x86_load, x86_bumps()
    else:
        shapes, st, ld, bumps = a64_shapes(), a64_store, a64_load, a64_bumps()
    out = []
    for s1 in shapes:
        for s2 in shapes:
            for nb in range(max_bumps + 1):
                for bs in itertools.product(bumps, repeat=nb):
                    out.append([st(s1)] + list(bs) + [ld(s2)])
    if isa == "x86":
        for s1 in shapes[:6]:
            for s2 in shapes[:6]:
                for nb in range(max_bumps + 1):
                    for bs in itertools.product(bumps, repeat=nb):
                        out.append([x86_rmw_store(s1)] + list(bs) + [ld(s2)])
        # a read-modify-write instruction loads what was stored before and then ends the search
        # for that store like any other store to the same operand
        for s1 in shapes[:6]:
            for s2 in shapes[:6]:
                for nb in range(min(max_bumps, 1) + 1):
                    for bs in itertools.product(bumps, repeat=nb):
                        out.append([st(s1)] + list(bs) + [x86_rmw_store(s2)])
        for s1 in shapes[:4]:
            for s2 in shapes[:4]:
                for s3 in shapes[:4]:
                    out.append([st(s1), x86_rmw_store(s2), ld(s3)])
    # a later store to the same operand ends the search; one to another operand does not
    for s1 in shapes[:4]:
        for s2 in shapes[:4]:
            for s3 in shapes[:4]:
                out.append([st(s1), st(s3), ld(s2)])
    return out


def check_kernel(arch, isa, ris, flags=False):
    mm, sem = _MODELS[arch]
    probs = []
    parser, kernel = dgfam.parsed_kernel(isa, [r.text for r in ris])
    sem.add_semantics(kernel)
    g = drive.graph_only(kernel, parser, mm, sem, flags)
    idx = {k.line_number: i for i, k in enumerate(kernel)}
    got = {}
    for a, b, d in g.dg.edges(data=True):
        if a != int(a):
            continue
        got[(idx[a], idx[b])] = float(d["latency"])
    p_idx = float(mm.get("p_index_latency", 1))
    s2l = float(mm.get("store_to_load_forward_latency", 0) or 0)
    # producer latencies as assigned by the analysis (C08 owns their correctness)
    for r, k in zip(ris, kernel):
        r.lat_exec = float(k.latency_wo_load if k.latency_wo_load is not None else k.latency)
        r.lat = float(k.latency)
    raw = RD.raw_edges(ris, flags, p_idx)
    mem = RD.memdep_edges(ris)
    n = 0
    unspec = 0
    sig = []
    for i in range(len(ris)):
        for j in range(i + 1, len(ris)):
            e = (i, j)
            verdict = mem.get(e)
            memw = {ris[i].lat + s2l, ris[i].lat_exec + s2l}
            if e not in raw and verdict is None:
                if e in got:
                    probs.append(("spurious", "edge %d->%d weight %s without any dependency"
                                  % (i, j, got[e])))
                continue
            n += 1
            allowed = set(raw.get(e, ()))
            if verdict in ("required", "unspecified"):
                allowed |= memw
            must = e in raw or verdict == "required"
            if verdict == "unspecified" and e not in raw:
                unspec += 1
            if must and e not in got:
                probs.append(("missing-memdep" if e not in raw else "missing-raw",
                              "no edge %s -> %s although %s"
                              % (ris[i].text, ris[j].text,
                                 "the load address is provably the store address"
                                 if e not in raw else "a register is read after being written")))
            elif e in got:
                if verdict == "forbidden" and e not in raw:
                    probs.append(("spurious-memdep", "edge %s -> %s (weight %s) although the "
                                  "addresses provably differ (other displacement, or a register that is "
                                  "no accounted copy of the store's)" % (ris[i].text, ris[j].text,
                                                                           got[e])))
                elif not any(abs(got[e] - w) < 1e-9 for w in allowed):
                    probs.append(("weight", "edge %s -> %s has weight %s, expected one of %s"
                                  % (ris[i].text, ris[j].text, got[e], sorted(allowed))))
            if verdict is not None:
                sig.append((verdict, e in got))
    return probs, n, unspec, tuple(sig)


def _work(item):
    arch, isa, k = item
    ris = _KERNELS[isa][k]
    out = {"bad": [], "n": 0, "unspec": 0, "sig": None}
    try:
        probs, n, unspec, sig = check_kernel(arch, isa, ris)
        out["n"], out["unspec"], out["sig"] = n, unspec, sig
        out["bad"] = probs
    except Exception:
        out["bad"].append(("exception", traceback.format_exc()[-1500:]))
    return item, out


_KERNELS = {}


def _prepare(ctx):
    archs = {"x86": ["zen1"], "aarch64": ["tx2"]}
    if ctx.thorough:
        archs = {"x86": drive.shipped_archs("x86"), "aarch64": drive.shipped_archs("aarch64")}
    names = archs["x86"] + archs["aarch64"]
    drive.stage_and_parse(ctx, names + ["isa/x86", "isa/aarch64"])
    for a in names:
        mm = drive.MachineModel(arch=a)
        _MODELS[a] = (mm, drive.ArchSemantics(mm))
    for isa in ("x86", "aarch64"):
        _KERNELS[isa] = kernels(isa, 2, ctx.thorough)
        dgfam.warm_parse_cache(isa, sorted({r.text for k in _KERNELS[isa] for r in k}))
    return archs


def _shape_key(ris):
    tags = [r.tag for r in ris[1:-1]]
    return ",".join(sorted(set(tags))) or "none"


def run(ctx):
    res = core.Result()
    archs = _prepare(ctx)
    items = []
    for isa in ("x86", "aarch64"):
        for i, a in enumerate(archs[isa]):
            ks = range(len(_KERNELS[isa]))
            if i > 0:
                ks = [k for k in ks if len(_KERNELS[isa][k]) <= 3]  # other models: <=1 bump
            items += [(a, isa, k) for k in ks]
    out = core.pmap(_work, core.rotate(items, ctx.seed))
    for (arch, isa, k), o in out:
        ris = _KERNELS[isa][k]
        res.states += 1
        res.traces += 1
        res.transitions += o["n"]
        res.unspecified += o["unspec"]
        res.outcomes.add(o["sig"])
        if o["sig"] and any(v == "required" for v, _ in o["sig"]):
            res.nontrivial += 1
        for kind, what in o["bad"]:
            st = ris[0]
            st_mode = "pre" if "]!" in st.text else ("post" if "], #" in st.text else "offset")
            all_text = " ".join(r.text for r in ris[1:])
            later_mode = "pre" if "]!" in all_text else ("post" if "], #" in all_text else "offset")
            base = st.stores[0].base if st.stores else None
            res.violations.append(core.Violation(
                {"kind": kind, "isa": isa, "between": _shape_key(ris),
                 "store_addressing": st_mode, "later_addressing": later_mode,
                 "store_base_overwritten_before_load": any(base in r.writes for r in ris[1:-1])},
                "[%s] kernel %r: %s" % (arch, [r.text for r in ris], what),
                {"arch": arch, "isa": isa, "kernel_index": k, "kernel": [r.text for r in ris],
                 "tier": ctx.tier, "what": what}))
    for (arch, isa, k), o in out[:1] + out[len(out) // 2: len(out) // 2 + 3]:
        res.add_sample({"arch": arch, "kernel": [r.text for r in _KERNELS[isa][k]],
                        "(verdict, edge present)": o["sig"]})
    res.evaluations = res.states
    res.rule = ("store x [0..1 (thorough 2) pointer bumps] x load (x second store) over every "
                "addressing shape (base, base+disp, base+index*scale(+disp); AArch64 also pre-/post-"
                "index), displacement pairs from {none, 8, -8, 16}, bumps add/sub immediate, inc/dec, "
                "register copy, copy-with-offset, post-/pre-indexed access in between, one untracked "
                "change; different base / index / scale as negatives; non-trivial = kernel with a "
                "required store->load dependency")
    res.bounds = {"bumps": 2, "models": archs}
    res.assumptions = [
        "symbolic address tracker mc/ref/dg.py: register = origin + constant | unknown",
        "dependency through an untracked register change is unspecified (counted, not checked)",
        "edge weight: store latency (with or without load stage) + store_to_load_forward_latency"]
    return res


def replay(ctx, payload):
    r = payload["replay"]
    ctx.thorough = r.get("tier") == "thorough"
    _prepare(ctx)
    _, o = _work((r["arch"], r["isa"], r["kernel_index"]))
    for b in o["bad"]:
        print(b)
    return 1 if o["bad"] else 0
