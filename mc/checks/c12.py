"""C12 - register dependence equals architectural register overlap (complete table)."""
import itertools

from mc import core, drive
from mc.ref import regs

LEVEL = "model_checking"


def _case_variants(name):
    out = [name, name.upper()]
    if len(name) > 1:
        mixed = name[0].upper() + name[1:]
        out.append(mixed)
    return list(dict.fromkeys(out))


def _x86_operands():
    """(written, lower name, position, operand object) - every operand is produced by the
    real parser, as register operand and as memory base / index."""
    p = drive.get_parser("x86")
    ops = []
    for name in regs.X86:
        for w in _case_variants(name):
            o = p.parse_register("%" + w)
            if o is None:
                raise core.HarnessError("x86 parser rejects register %r" % w)
            ops.append((w, name, "reg", o))
    # as base / index of a memory operand (64-bit GPRs only are valid address registers)
    for name in regs.X86:
        if name.startswith("r") and not name[-1] in "dwb" or name in ("rax",):
            if regs.X86[name][0] != "gpr" or not name.startswith("r") or name[-1] in "dwb":
                continue
            for w in (name, name.upper()):
                ins = p.parse_line("movq (%{0},%{0},8), %rax".format(w), 1)
                m = ins.operands[0]
                ops.append((w, name, "base", m.base))
                ops.append((w, name, "index", m.index))
    return ops


def _a64_operands():
    p = drive.get_parser("aarch64")
    ops = []
    for name in regs.A64:
        variants = [name, name.upper()]
        for w in variants:
            ins = p.parse_line("mov %s, x0" % w, 1)
            o = ins.operands[0]
            ops.append((w, name, "reg", o))
    for name in regs.A64:
        cls = regs.A64[name]
        if (cls[0] == "gpr" and name.startswith("x")) or name == "sp":
            for w in (name, name.upper()):
                ins = p.parse_line("ldr x0, [%s]" % w, 1)
                ops.append((w, name, "base", ins.operands[1].base))
        if cls[0] == "gpr":
            for w in (name, name.upper()):
                ins = p.parse_line("ldr x0, [x1, %s]" % w, 1)
                ops.append((w, name, "index", ins.operands[1].index))
    return ops


_OPS = {}


def _row(args):
    isa, i = args
    ops = _OPS[isa]
    p = drive.get_parser(isa)
    wa, na, pa, oa = ops[i]
    ca = regs.class_of(isa, na)
    bad = []
    n = 0
    outcomes = set()
    for wb, nb, pb, ob in ops:
        cb = regs.class_of(isa, nb)
        exp = ca == cb
        try:
            got = bool(p.is_reg_dependend_of(oa, ob))
        except Exception as e:  # inside the property's domain -> violation
            got = "exception:%s" % type(e).__name__
        n += 1
        outcomes.add(got)
        if got != exp:
            bad.append((wa, pa, wb, pb, exp, got, ca, cb))
    return n, bad, outcomes


def run(ctx):
    res = core.Result()
    res.rule = ("every ordered pair of register operands (each produced by the real parser; lower, "
                "upper and mixed case; as plain operand, memory base and memory index) is passed "
                "to is_reg_dependend_of and compared with the architectural partition table; a "
                "pair is non-trivial if its two names differ; (b) at graph level: a producer "
                "writing two registers and a consumer reading one, all triples over ~20 names per "
                "ISA, edge iff overlap")
    for isa, mk in (("x86", _x86_operands), ("aarch64", _a64_operands)):
        _OPS[isa] = mk()
    for isa in ("x86", "aarch64"):
        n_ops = len(_OPS[isa])
        rows = core.pmap(_row, core.rotate([(isa, i) for i in range(n_ops)], ctx.seed))
        for n, bad, outs in rows:
            res.transitions += n
            res.traces += n
            res.outcomes |= {(isa, o) for o in outs}
            for wa, pa, wb, pb, exp, got, ca, cb in bad:
                kind = "missing" if exp else "spurious"
                if isinstance(got, str):
                    kind = got
                fam = ""
                if exp and ca[0] == "gpr" and not str(ca[1]).startswith("R"):
                    fam = str(ca[1])
                key = {"isa": isa, "kind": kind, "class_a": str(ca[0]), "class_b": str(cb[0]),
                       "family": fam,
                       "case": "same" if (wa.islower() == wb.islower()) else "mixed"}
                res.violations.append(core.Violation(
                    key,
                    "%s: is_reg_dependend_of(%s[%s], %s[%s]) = %s, architectural overlap = %s"
                    % (isa, wa, pa, wb, pb, got, exp),
                    {"isa": isa, "a": wa, "pos_a": pa, "b": wb, "pos_b": pb, "expected": exp,
                     "observed": got}))
        res.states += n_ops * n_ops
        res.nontrivial += n_ops * (n_ops - 1)
        res.add_sample({"isa": isa, "operands": n_ops,
                        "first": [o[0] + "/" + o[2] for o in _OPS[isa][:5]]})
    graph_part(ctx, res)
    res.evaluations = res.transitions
    res.bounds = {"x86_names": len(regs.X86), "aarch64_names": len(regs.A64),
                  "case_variants": "lower, UPPER, Mixed (x86); lower, UPPER (AArch64: the grammar "
                                   "accepts no mixed-case sp/zr)"}
    res.assumptions = ["partition table mc/ref/regs.py written from the architecture manuals",
                       "ah/al style byte registers are treated as one family, as the property "
                       "statement lists them in one group"]
    # properties of an equivalence relation follow from equality with a partition
    return res


def replay(ctx, payload):
    r = payload["replay"]
    isa = r["isa"]
    if r.get("part") == "graph":
        from mc import dgfam
        _GFAM[isa] = dgfam.Family(isa, ctx.sub("c12graph"), "c12" + isa)
        saved = GRAPH_NAMES[isa]
        GRAPH_NAMES[isa] = [r["c"]]
        try:
            _, (n, bad) = _graph_case((isa, r["a"], r["b"]))
        finally:
            GRAPH_NAMES[isa] = saved
        for b in bad:
            print(b)
        return 1 if bad else 0
    ops = (_x86_operands if isa == "x86" else _a64_operands)()
    p = drive.get_parser(isa)
    a = [o for o in ops if o[0] == r["a"] and o[2] == r["pos_a"]][0]
    b = [o for o in ops if o[0] == r["b"] and o[2] == r["pos_b"]][0]
    got = bool(p.is_reg_dependend_of(a[3], b[3]))
    print("is_reg_dependend_of(%s, %s) = %s ; expected %s" % (r["a"], r["b"], got, r["expected"]))
    return 0 if got == r["expected"] else 1


# ------------------------------------------------------------------------------------------
# part (b): the same relation where it is used - a producer writing two registers, a consumer
# reading one; the dependency graph must have the edge iff the read register overlaps one of
# the written ones (the graph builder keeps its own lists of written registers)

GRAPH_NAMES = {
    "x86": ["rax", "eax", "ax", "al", "ah", "rbx", "ebx", "r8", "r8d", "r8w", "r8b", "r9",
            "xmm1", "ymm1", "zmm1", "xmm2", "mm1", "mm2", "R8D", "EAX"],
    "aarch64": ["x1", "w1", "x2", "w2", "b1", "h1", "s1", "d1", "q1", "v1.2d", "z1.d", "d2",
                "q2", "v2.4s", "p1", "p2", "x30", "X1", "Q1"],
}
_GFAM = {}


def _graph_case(item):
    from mc import dgfam
    isa, a, b = item
    fam = _GFAM[isa]
    other = "r15" if isa == "x86" else "x15"
    bad = []
    n = 0
    for c in GRAPH_NAMES[isa]:
        texts = ["opdd %s, %s" % (dgfam.rtext(isa, a), dgfam.rtext(isa, b)),
                 "opsd %s, %s" % (dgfam.rtext(isa, c), dgfam.rtext(isa, other))]
        try:
            mm, sem = fam.load()
            parser, kernel = dgfam.parsed_kernel(isa, texts)
            sem.add_semantics(kernel)
            g = drive.graph_only(kernel, parser, mm, sem, False)
            got = g.dg.has_edge(kernel[0].line_number, kernel[1].line_number)
        except Exception as e:
            bad.append((c, None, "exception %s: %s" % (type(e).__name__, str(e)[:120])))
            continue
        n += 1
        ca = regs.class_of(isa, a.split(".")[0])
        cb = regs.class_of(isa, b.split(".")[0])
        cc = regs.class_of(isa, c.split(".")[0])
        exp = cc == ca or cc == cb
        if got != exp:
            bad.append((c, exp, "edge present=%s" % got))
    return item, (n, bad)


def graph_part(ctx, res):
    from mc import dgfam
    d = ctx.sub("c12graph")
    items = []
    for isa in ("x86", "aarch64"):
        _GFAM[isa] = dgfam.Family(isa, d, "c12" + isa)
        _GFAM[isa].load()
        other = "r15" if isa == "x86" else "x15"
        texts = set()
        for a in GRAPH_NAMES[isa]:
            for b in GRAPH_NAMES[isa]:
                texts.add("opdd %s, %s" % (dgfam.rtext(isa, a), dgfam.rtext(isa, b)))
            texts.add("opsd %s, %s" % (dgfam.rtext(isa, a), dgfam.rtext(isa, other)))
        dgfam.warm_parse_cache(isa, sorted(texts))
        items += [(isa, a, b) for a in GRAPH_NAMES[isa] for b in GRAPH_NAMES[isa]]
    out = core.pmap(_graph_case, core.rotate(items, ctx.seed))
    total = 0
    for (isa, a, b), (n, bad) in out:
        total += n
        res.states += n
        res.traces += n
        res.transitions += n
        res.nontrivial += n
        for c, exp, what in bad:
            res.violations.append(core.Violation(
                {"part": "graph", "isa": isa, "kind": "exception" if exp is None else
                 ("missing" if exp else "spurious")},
                "%s: producer writes %s and %s, consumer reads %s: %s, architectural overlap = %s"
                % (isa, a, b, c, what, exp),
                {"part": "graph", "isa": isa, "a": a, "b": b, "c": c, "what": what}))
    res.extra["graph_level_kernels"] = total
