"""E2 - stateless schedule explorer for the real LCD search (osaca.semantics.kernel_dg).

The poller (check_for_loopcarried_dep) runs in the explorer's own thread; every worker
"process" is a Python thread that runs the real target and hands the baton back at each
operation on shared state.  All nondeterminism of the search is owned here:

  worker steps   each shared_list.extend() of a worker is a scheduling point *before* its effect
  poller         time.sleep() / Process.join() block the poller; the scheduler then chooses which
                 worker takes a step, or (sleep only) that the poller wakes up
  clock          virtual; advances only by the slept amount
  kill           os.kill(pid, SIGKILL) / Process.kill(): the victim is unwound at its current
                 scheduling point; its pending extend either did not happen or (second
                 alternative at the same point) was already processed by the manager
A schedule is the list of choices taken; run(prefix) replays a prefix (an out-of-range choice is
a hard error) and continues with choice 0 everywhere."""
import signal
import threading
import types


class ReplayDivergence(Exception):
    pass


class _Killed(BaseException):
    pass


class Deadlock(Exception):
    pass


class VList:
    def __init__(self, world):
        self._w = world
        self._items = []

    def extend(self, items):
        items = list(items)
        self._w.worker_point("extend", lambda: self._items.extend(items))

    def append(self, item):
        self._w.worker_point("append", lambda: self._items.append(item))

    def __iter__(self):
        return iter(list(self._items))

    def __len__(self):
        return len(self._items)

    def __getitem__(self, i):
        return self._items[i]


class VQueue:
    """multiprocessing.SimpleQueue / Queue: a pipe.  put() of a worker is a scheduling point before
    its effect; a worker killed at that point leaves nothing, the complete message or - third
    alternative - a message cut in the middle in the pipe.  get() by the poller blocks until a
    message is there (the scheduler chooses which worker runs meanwhile); get() on a cut message,
    or on an empty pipe when no worker can ever write again, never returns: reported as Deadlock.
    The capacity of the pipe is not modelled (a put never blocks)."""

    def __init__(self, world):
        self._w = world
        self._items = []

    def put(self, obj, *a, **kw):
        self._w.worker_point("put", lambda: self._items.append(("ok", obj)),
                             torn=lambda: self._items.append(("torn", None)))

    put_nowait = put

    def empty(self):
        return not self._items

    def qsize(self):
        return len(self._items)

    def get(self, block=True, timeout=None):
        w = self._w
        if w.current is not None:
            raise AssertionError("get() from a worker is not modelled")
        while not self._items:
            if not block:
                import queue
                raise queue.Empty()
            run = w.runnable()
            if timeout is not None:
                opts = [("step", p) for p in run] + [("timeout", None)]
            else:
                opts = [("step", p) for p in run]
            if not opts:
                raise Deadlock("get() on an empty queue while no worker is alive: blocks forever")
            kind, p = w.choose(opts, "qget")
            if kind == "timeout":
                import queue
                w.now += timeout
                raise queue.Empty()
            w._step(p)
        kind, obj = self._items.pop(0)
        if kind == "torn":
            raise Deadlock("get() on a message that was cut short when its sender was killed: "
                           "blocks forever")
        return obj

    def get_nowait(self):
        return self.get(block=False)

    def close(self):
        pass

    def join_thread(self):
        pass

    def cancel_join_thread(self):
        pass


class VManager:
    def __init__(self, world):
        self._w = world

    def __enter__(self):
        return self

    def __exit__(self, *a):
        self._w.manager_closed = True
        return False

    def list(self, *a):
        v = VList(self._w)
        self._w.lists.append(v)
        return v

    def Queue(self, *a, **kw):
        return VQueue(self._w)

    def shutdown(self):
        self._w.manager_closed = True


class VProcess:
    def __init__(self, world, target=None, args=(), kwargs=None, **kw):
        self._w = world
        self._target, self._args, self._kwargs = target, args, kwargs or {}
        self.idx = len(world.procs)
        self.pid = 4000 + self.idx
        self.state = "new"        # new, ready, blocked(at point), done, killed
        self.exitcode = None
        self.pending = None       # effect of the pending shared-state operation
        self.steps = 0
        self.joined = False
        self.go = threading.Semaphore(0)
        self.thread = None
        self.kill_applies = None
        world.procs.append(self)

    # -- API used by code under test
    def start(self):
        if self.state != "new":
            raise AssertionError("process started twice")
        self.state = "ready"
        self._w.started += 1

    def is_alive(self):
        return self.state in ("ready", "blocked")

    def join(self, timeout=None):
        self._w.poller_join(self, timeout)

    def kill(self):
        self._w.kill(self)

    def terminate(self):
        # SIGTERM: obeys the disposition the worker inherited from the calling process
        if self._w.sigterm_ignored:
            self._w.events.append(("sigterm-ignored", self.idx))
            return
        self._w.kill(self)

    def close(self):
        pass

    # -- thread body
    def _run(self):
        w = self._w
        self.go.acquire()
        try:
            if self.kill_applies is not None:
                raise _Killed()
            w.current = self
            self._target(*self._args, **self._kwargs)
            self.state = "done"
            self.exitcode = 0
        except _Killed:
            self.state = "killed"
            self.exitcode = -signal.SIGKILL
        except BaseException as e:  # the target itself failed
            self.state = "done"
            self.exitcode = 1
            w.worker_errors.append(repr(e))
        finally:
            w.current = None
            w.back.release()


class World:
    """one execution"""

    def __init__(self, prefix, cpu_count, wake_default=False, max_idle_wakes=None,
                 clock_jump=None, sigterm_ignored=False, tick_per_path=0.0):
        self.prefix = list(prefix)
        self.choices = []
        self.noptions = []
        self.labels = []
        self.procs = []
        self.started = 0
        self.now = 100.0
        self.clock_queries = 0
        self.back = threading.Semaphore(0)
        self.current = None
        self.manager_closed = False
        self.worker_errors = []
        self.lists = []
        self.cpu_count = cpu_count
        self.events = []
        self.sleeps = 0
        self.horizon_sleeps = 200
        self.wake_default = wake_default
        # polling makes the execution space cyclic: a wake-up of the poller without any worker
        # progress since the previous wake-up only advances the clock; cap how many of those in a
        # row are explored (None = no cap; used when the timeout itself bounds the sleeps)
        self.max_idle_wakes = max_idle_wakes
        self.idle_wakes = 0
        self.progress = False
        # environment answer for code that polls the clock without sleeping (single-process
        # search): at every query the clock may jump ahead by clock_jump seconds (once)
        self.clock_jump = clock_jump
        # environment: the calling process ignores (or handles without exiting) SIGTERM and its
        # forked workers inherit that; SIGKILL cannot be ignored
        self.sigterm_ignored = sigterm_ignored
        # work takes time: every dependency path the search enumerates in the poller's own
        # thread (single-process search) advances the clock by this much
        self.tick_per_path = tick_per_path
        self.paths_enumerated = 0
        self.jumped = False
        self.queries_after_jump = 0

    # -- choices ---------------------------------------------------------------------------
    def choose(self, options, label):
        i = len(self.choices)
        if i < len(self.prefix):
            c = self.prefix[i]
            if c >= len(options):
                raise ReplayDivergence("choice %d=%d but only %d options at %s"
                                       % (i, c, len(options), label))
        else:
            c = 0
        self.choices.append(c)
        self.noptions.append(len(options))
        self.labels.append(label)
        return options[c]

    # -- worker side -------------------------------------------------------------------------
    def worker_point(self, name, effect, torn=None):
        p = self.current
        if p is None:
            # shared list used by the poller itself (e.g. list(all_paths)): no scheduling point
            effect()
            return
        p.pending = effect
        p.pending_torn = torn
        p.state = "blocked"
        self.current = None
        self.back.release()
        p.go.acquire()
        self.current = p
        if p.kill_applies is not None:
            if p.kill_applies == "torn":
                torn()
            elif p.kill_applies:
                effect()
            p.pending = None
            raise _Killed()
        effect()
        p.pending = None
        p.steps += 1
        p.state = "ready"

    def _step(self, p):
        """let worker p run until its next scheduling point or its end"""
        if p.thread is None:
            p.thread = threading.Thread(target=p._run, daemon=True)
            p.thread.start()
        self.events.append(("step", p.idx))
        p.go.release()
        self.back.acquire()

    def runnable(self):
        return [p for p in self.procs if p.state in ("ready", "blocked")]

    # -- poller side -------------------------------------------------------------------------
    def time(self):
        self.clock_queries += 1
        if self.jumped:
            self.queries_after_jump += 1
        if self.clock_jump is not None and not self.jumped and self.clock_queries > 1:
            if self.choose([False, True], "clock%d" % self.clock_queries):
                self.now += self.clock_jump
                self.jumped = True
        return self.now

    def sleep(self, dt):
        self.sleeps += 1
        if self.sleeps > self.horizon_sleeps:
            raise Deadlock("livelock: poller still sleeping after %d sleeps" % self.sleeps)
        while True:
            run = self.runnable()
            may_wake = (not run or self.progress or self.max_idle_wakes is None or
                        self.idle_wakes < self.max_idle_wakes)
            opts = [("step", p) for p in run] + ([("wake", None)] if may_wake else [])
            if self.wake_default and may_wake:
                opts = [("wake", None)] + [("step", p) for p in run]
            kind, p = self.choose(opts, "sleep")
            if kind == "wake":
                self.idle_wakes = 0 if self.progress else self.idle_wakes + 1
                self.progress = False
                break
            self._step(p)
            self.progress = True
        self.now += dt
        self.events.append(("wake", round(self.now, 3)))

    def poller_join(self, target, timeout):
        if target.state == "new":
            raise AssertionError("join of a process that was not started")
        while target.state in ("ready", "blocked"):
            run = self.runnable()
            if timeout is not None:
                opts = [("step", p) for p in run] + [("timeout", None)]
            else:
                opts = [("step", p) for p in run]
            kind, p = self.choose(opts, "join%d" % target.idx)
            if kind == "timeout":
                self.now += timeout
                return
            self._step(p)
        target.joined = True

    def kill(self, victim):
        self.events.append(("kill", victim.idx, victim.state))
        if victim.state in ("done", "killed", "new"):
            return
        if victim.state == "blocked":
            opts = [False, True] + (["torn"] if getattr(victim, "pending_torn", None) else [])
            applies = self.choose(opts, "kill%d" % victim.idx)
        else:
            applies = False
        victim.kill_applies = applies
        self._step(victim)

    def os_kill(self, pid, sig):
        for p in self.procs:
            if p.pid == pid:
                if sig == signal.SIGTERM and self.sigterm_ignored:
                    self.events.append(("sigterm-ignored", p.idx))
                    return None
                return self.kill(p)
        raise ProcessLookupError(pid)

    # -- teardown ----------------------------------------------------------------------------
    def finish(self):
        """-> list of problems about leftover workers; unwinds everything"""
        probs = []
        for p in self.procs:
            if p.state in ("ready", "blocked"):
                probs.append("worker %d still running when the analysis returned (steps done: %d)"
                             % (p.idx, p.steps))
                p.kill_applies = False
                self._step(p)
            elif p.state in ("done", "killed") and not p.joined:
                probs.append("worker %d was never joined" % p.idx)
        for p in self.procs:
            if p.thread is not None:
                p.thread.join(5)
                if p.thread.is_alive():
                    probs.append("thread of worker %d did not terminate" % p.idx)
        return probs


class _Proxy:
    def __init__(self, target, overrides):
        self._t, self._o = target, overrides

    def __getattr__(self, name):
        if name in self._o:
            return self._o[name]
        return getattr(self._t, name)


def _ticking_nx(world, nx):
    """networkx as kernel_dg sees it, with all_simple_paths advancing the virtual clock per path
    (only in the poller's own thread)"""
    real = nx.algorithms.simple_paths.all_simple_paths

    def all_simple_paths(*a, **kw):
        for p in real(*a, **kw):
            if world.current is None:
                world.now += world.tick_per_path
                world.paths_enumerated += 1
            yield p

    sp = _Proxy(nx.algorithms.simple_paths, {"all_simple_paths": all_simple_paths})
    alg = _Proxy(nx.algorithms, {"simple_paths": sp, "all_simple_paths": all_simple_paths})
    return _Proxy(nx, {"algorithms": alg, "all_simple_paths": all_simple_paths})


def install(world, kd):
    """patch module attributes of osaca.semantics.kernel_dg; returns an undo function"""
    # whichever of these names the module under test imported is replaced (a rewrite of the
    # search may use a queue instead of a managed list)
    names = ("Process", "Manager", "SimpleQueue", "Queue", "JoinableQueue", "cpu_count", "time",
             "os")
    saved = {k: getattr(kd, k) for k in names if hasattr(kd, k)}
    for need in ("Process", "cpu_count", "time"):
        if need not in saved:
            raise RuntimeError("kernel_dg no longer uses %s: the schedule explorer does not own "
                               "its concurrency primitives" % need)
    kd.Process = lambda *a, **kw: VProcess(world, *a, **kw)
    if "Manager" in saved:
        kd.Manager = lambda *a, **kw: VManager(world)
    for q in ("SimpleQueue", "Queue", "JoinableQueue"):
        if q in saved:
            setattr(kd, q, lambda *a, **kw: VQueue(world))
    kd.cpu_count = lambda: world.cpu_count
    if world.tick_per_path and hasattr(kd, "nx"):
        saved["nx"] = kd.nx
        kd.nx = _ticking_nx(world, saved["nx"])
    kd.time = types.SimpleNamespace(time=world.time, sleep=world.sleep,
                                    perf_counter=world.time, monotonic=world.time)
    if "os" in saved:
        real_os = saved["os"]

        class _OS:
            def __getattr__(self, name):
                return getattr(real_os, name)

            def kill(self, pid, sig):
                return world.os_kill(pid, sig)

        kd.os = _OS()

    def undo():
        for k, v in saved.items():
            setattr(kd, k, v)
    return undo


def explore(run_one, bound=None, first_prefixes=None, max_executions=None):
    """DFS over choice sequences.  run_one(prefix) -> (choices, noptions, observation).
    bound: max number of non-default choices (None = unbounded = complete).
    Yields (choices, observation).  first_prefixes: explore only below these prefixes."""
    stack = list(reversed(first_prefixes)) if first_prefixes else [[]]
    n = 0
    while stack:
        prefix = stack.pop()
        choices, nopts, obs = run_one(prefix)
        n += 1
        yield choices, obs
        if max_executions and n >= max_executions:
            return
        for i in range(len(choices) - 1, len(prefix) - 1, -1):
            dev = sum(1 for c in choices[:i] if c != 0)
            for alt in range(nopts[i] - 1, 0, -1):
                if bound is not None and dev + 1 > bound:
                    continue
                stack.append(choices[:i] + [alt])
