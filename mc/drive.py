"""Thin drivers around the real OSACA API.  Importing this module imports osaca, so the
scratch HOME must already be in place (run_check.py does that)."""
import io
import os
import re
import shutil
import types

from mc import core

import osaca  # noqa: E402
from osaca import utils as osaca_utils
from osaca.parser import ParserAArch64, ParserX86ATT
from osaca.semantics import ArchSemantics, KernelDG, MachineModel, INSTR_FLAGS  # noqa: F401

DATA = os.path.join(os.path.dirname(osaca.__file__), "data")

X86_ARCHS = ["snb", "ivb", "hsw", "bdw", "skx", "csx", "icl", "icx", "spr",
             "zen1", "zen2", "zen3", "zen4"]
A64_ARCHS = ["tx2", "n1", "a64fx", "tsv110", "a72", "m1", "v2"]


def shipped_archs(isa=None):
    """Architectures whose model file is non-empty in the working tree."""
    out = []
    for a in X86_ARCHS + A64_ARCHS:
        p = os.path.join(DATA, a + ".yml")
        if os.path.exists(p) and os.path.getsize(p) > 0:
            if isa is None or isa_of(a) == isa:
                out.append(a)
    return out


def isa_of(arch):
    return "x86" if arch.lower() in X86_ARCHS else "aarch64"


def assert_scratch_home(ctx):
    assert osaca_utils.DATA_DIRS[0].startswith(ctx.home), (
        "osaca was imported before the scratch HOME was set: %r" % osaca_utils.DATA_DIRS)


def stage(ctx, names):
    """Copy model files (e.g. 'zen1', 'isa/x86') into the scratch ~/.osaca/data so that they
    are parsed from YAML by the *current* code (no pre-built pickle is consulted)."""
    assert_scratch_home(ctx)
    dst_root = osaca_utils.DATA_DIRS[0]
    for n in names:
        src = os.path.join(DATA, n + ".yml")
        dst = os.path.join(dst_root, n + ".yml")
        os.makedirs(os.path.dirname(dst), exist_ok=True)
        if not os.path.exists(dst):
            shutil.copyfile(src, dst)


def _cold_load(name):
    MachineModel(path_to_yaml=osaca_utils.find_datafile(name + ".yml"))
    return name


def stage_and_parse(ctx, names):
    """Stage and cold-parse in parallel (each parse leaves its pickle in the scratch dir)."""
    stage(ctx, names)
    core.pmap(_cold_load, list(names), chunk=1)


def get_parser(isa):
    return ParserX86ATT() if isa == "x86" else ParserAArch64()


def reset_process_state():
    MachineModel._runtime_cache.clear()


class Analysis:
    pass


def analyse(code, isa, mm, sem, optimal=0, flags=False, timeout=10, lcd=True, start_line=0):
    """parse -> add_semantics -> (optimal passes) -> KernelDG.  Returns an Analysis."""
    parser = get_parser(isa)
    kernel = parser.parse_file(code, start_line)
    sem.add_semantics(kernel)
    for _ in range(optimal):
        sem.assign_optimal_throughput(kernel)
    a = Analysis()
    a.kernel = kernel
    a.parser = parser
    if lcd:
        a.dg = KernelDG(kernel, parser, mm, sem, timeout=timeout, flag_dependencies=flags)
    return a


def cli_args(path, arch=None, fixed=False, ignore_unknown=False, flags=False, lines=None,
             timeout=10, yaml_out=None):
    import argparse
    ns = argparse.Namespace()
    ns.arch = arch
    ns.fixed = fixed
    ns.lines = lines
    ns.check_db = False
    ns.internet_check = False
    ns.insert_marker = False
    ns.dotpath = None
    ns.ignore_unknown = ignore_unknown
    ns.lcd_timeout = timeout
    ns.consider_flag_deps = flags
    ns.verbose = 0
    ns.out = None
    ns.yaml_out = yaml_out
    ns.file = open(path, "r")
    return ns


_TS = re.compile(r"^Timestamp:.*$", re.M)
_FN = re.compile(r"^Analyzed file:.*$", re.M)


def strip_report(text, keep_filename=False):
    text = _TS.sub("Timestamp:", text)
    if not keep_filename:
        text = _FN.sub("Analyzed file:", text)
    return text.rstrip("\n") + "\n"


def run_cli_inprocess(path, **kw):
    """osaca.osaca.run() in this process; returns report text (timestamp stripped)."""
    from osaca import osaca as cli
    args = cli_args(path, **kw)
    out = io.StringIO()
    try:
        cli.run(args, output_file=out)
    finally:
        args.file.close()
    return strip_report(out.getvalue())


class _NoLCD(KernelDG):
    """KernelDG built by its real constructor, minus the loop-carried search (the checks that
    only need the dependency graph and the critical path do not pay for it)"""

    def check_for_loopcarried_dep(self, *a, **kw):
        return {}


def graph_only(kernel, parser, mm, sem, flags=False):
    return _NoLCD(kernel, parser, mm, sem, timeout=-1, flag_dependencies=flags)
