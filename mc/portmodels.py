"""Synthetic 3-port models shared by C01 / C02 (operand-less mnemonics, x86 syntax)."""
import itertools
import os

from mc import synth

SCHEMES = {
    "ABC": ["A", "B", "C"],
    "0DV": ["0", "0DV", "1"],
    "1011": ["10", "11", "2"],
    # '12' written as a string means ports 1 and 2, ['12'] means the port named 12
    "112": ["1", "2", "12"],
}


def port_subsets(ports):
    return [list(s) for r in (1, 2, 3) for s in itertools.combinations(ports, r)]


def c01_forms(ports, with_strings):
    """name -> port_pressure (list, or dict of alternatives), plus per-form throughput."""
    subs = port_subsets(ports)
    a, b, c = ports
    forms = {}
    for ci, cyc in enumerate((1, 2, 0.5)):
        for si, s in enumerate(subs):
            forms["s%d%d" % (ci, si)] = [[cyc, s]]
    for i, j in itertools.combinations_with_replacement(range(7), 2):
        forms["d%d%d" % (i, j)] = [[1, subs[i]], [1, subs[j]]]
    forms["m0"] = [[2, [a]], [1, [a, b, c]]]
    forms["m1"] = [[0.5, [a, b]], [2, [b, c]]]
    forms["m2"] = [[1, [a, b, c]], [2, [a]]]
    forms["m3"] = [[2, [a, b]], [0.5, [a]]]
    forms["t0"] = [[1, [a]], [1, [a, b]], [1, [a, b, c]]]
    forms["t1"] = [[1, [a, b]], [1, [b, c]], [1, [a, c]]]
    forms["a0"] = {0: [[1, [a]]], 1: [[1, [b]]]}
    forms["a1"] = {0: [[1, [a, b]]], 1: [[1, [c]]]}
    forms["a2"] = {0: [[2, [a]], [1, [b]]], 1: [[1, [b, c]], [2, [c]]]}
    forms["a3"] = {0: [[1, [a]]], 1: [[1, [b]]], 2: [[1, [c]]]}
    forms["z0"] = [[1, [a]]]  # throughput 0.0 -> shown, not summed
    forms["n0"] = []  # no micro-ops at all
    if with_strings:
        # string notation is only defined for one-character port names
        single = "".join(x for x in (a, b, c) if len(x) == 1)
        forms["q0"] = [[1, single[:2]]]
        forms["q1"] = [[2, single], [1, single[0]]]
    return forms


def c02_forms(ports):
    subs = port_subsets(ports)
    forms = {}
    for i, s in enumerate(subs):
        forms["f%d" % i] = [[1, s]]
    for i, s in enumerate(subs):
        forms["g%d" % i] = [[2, s]]
    return forms


def _alt_to_yaml(pp):
    """alternatives need integer keys (as a64fx.yml has them); JSON cannot express that."""
    return pp


def write_model(dirpath, name, ports, forms, zero_tp=("z0",)):
    import json
    fl = []
    for n, pp in forms.items():
        fl.append({"name": n, "operands": [], "throughput": 0.0 if n in zero_tp else 1.0,
                   "latency": 1.0, "port_pressure": "@@%s@@" % n})
    mm = synth.machine_model("x86", ports, fl, arch_code="SYN" + name)
    text = synth.dumps(mm)
    for n, pp in forms.items():
        if isinstance(pp, dict):
            y = "{" + ", ".join("%d: %s" % (k, json.dumps(v)) for k, v in pp.items()) + "}"
        else:
            y = json.dumps(pp)
        text = text.replace('"@@%s@@"' % n, y)
    path = os.path.join(dirpath, "syn_%s.yml" % name)
    os.makedirs(dirpath, exist_ok=True)
    with open(path, "w") as f:
        f.write(text)
    isa = synth.write(os.path.join(dirpath, "isa_empty_x86.yml"), synth.isa_db("x86", []))
    return path, isa
