"""Writers for synthetic machine models / ISA databases (JSON is a YAML subset)."""
import json
import os


def reg(isa, kind, **kw):
    """Operand pattern for a register. x86: kind is the name class (gpr/xmm/...),
    AArch64: kind is the prefix (x/w/d/v/...)."""
    d = {"class": "register"}
    if isa == "x86":
        d["name"] = kind
    else:
        d["prefix"] = kind
    d.update(kw)
    return d


def imd(t="int", **kw):
    d = {"class": "immediate", "imd": t}
    d.update(kw)
    return d


def mem(base="gpr", offset="*", index="*", scale="*", **kw):
    d = {"class": "memory", "base": base, "offset": offset, "index": index, "scale": scale}
    d.update(kw)
    return d


def form(name, operands, latency=None, throughput=None, port_pressure=None, **kw):
    d = {"name": name, "operands": operands}
    if latency is not None or "latency_none" in kw:
        d["latency"] = latency
    if throughput is not None:
        d["throughput"] = throughput
    if port_pressure is not None:
        d["port_pressure"] = port_pressure
    kw.pop("latency_none", None)
    d.update(kw)
    return d


def machine_model(isa, ports, forms, arch_code="SYN", load_latency=None,
                  load_throughput=None, load_throughput_default=None,
                  store_throughput=None, store_throughput_default=None, **extra):
    if load_latency is None:
        if isa == "x86":
            load_latency = {"gpr": 4.0, "mm": 4.0, "xmm": 4.0, "ymm": 4.0, "zmm": 4.0}
        else:
            load_latency = {k: 4.0 for k in "wxbhsdqvzp"}
    d = {
        "osaca_version": "0.6.1",
        "micro_architecture": "synthetic",
        "arch_code": arch_code,
        "isa": isa,
        "hidden_loads": False,
        "load_latency": load_latency,
        "load_throughput": load_throughput or [],
        "load_throughput_default": load_throughput_default or [],
        "store_throughput": store_throughput or [],
        "store_throughput_default": store_throughput_default or [],
        "ports": list(ports),
        "port_model_scheme": "",
    }
    d.update(extra)
    d["instruction_forms"] = forms
    return d


def isa_db(isa, forms):
    return {"osaca_version": "0.6.1", "isa": isa, "instruction_forms": forms}


def dumps(data):
    """Block-style top level (the lazy loader of OSACA scans for a line containing
    'instruction_forms:'), JSON flow style below it."""
    lines = []
    forms = None
    for k, v in data.items():
        if k == "instruction_forms":
            forms = v
            continue
        lines.append("%s: %s" % (k, json.dumps(v)))
    lines.append("instruction_forms:" + (" []" if not forms else ""))
    for f in forms or []:
        lines.append("- " + json.dumps(f))
    return "\n".join(lines) + "\n"


def write(path, data):
    os.makedirs(os.path.dirname(path), exist_ok=True)
    with open(path, "w") as f:
        f.write(dumps(data))
    return path
