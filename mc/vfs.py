"""Shims for osaca.semantics.hw_model's cache I/O (C17).

* AccessShim: hw_model.os proxy that answers os.access(..., W_OK) for chosen directories (the
  sandbox runs as root, for whom access() is always true) - used with the real file system;
* RaceFS: in-memory store for the cache files with a scheduling point before every operation
  (exists, open-for-read, open-for-write = truncate, each write chunk, close, replace), used by
  the cooperative explorer for N processes cold-starting on the same directory."""
import io
import os as _os
import pathlib


class AccessShim:
    def __init__(self, readonly_dirs=()):
        self.readonly = set(_os.path.abspath(d) for d in readonly_dirs)

    def __getattr__(self, name):
        return getattr(_os, name)

    def access(self, path, mode, **kw):
        if mode == _os.W_OK and _os.path.abspath(str(path)) in self.readonly:
            return False
        return _os.access(path, mode, **kw)


class RaceFS:
    def __init__(self, coop, chunks=2, readonly_dirs=(), virtual_dirs=()):
        self.coop = coop
        self.files = {}
        self.chunks = chunks
        self.log = []
        # directories for which os.access(..., W_OK) answers False
        self.readonly_dirs = set(_os.path.abspath(str(d)) for d in readonly_dirs)
        # directories whose existence is part of the store (absent until someone creates them)
        self.virtual_dirs = set(_os.path.abspath(str(d)) for d in virtual_dirs)
        self.dirs = set()

    def is_virtual_dir(self, path):
        return _os.path.abspath(str(path)) in self.virtual_dirs

    def dir_exists(self, path):
        self.coop.point("is_dir")
        return _os.path.abspath(str(path)) in self.dirs

    def makedirs(self, path, exist_ok=False):
        self.coop.point("makedirs")
        p = _os.path.abspath(str(path))
        if p in self.dirs:
            if not exist_ok:
                raise FileExistsError(17, "File exists", str(path))
            return
        self.dirs.add(p)

    def is_cache(self, path):
        s = str(path)
        return ".pickle" in _os.path.basename(s)

    # -- operations with scheduling points
    def exists(self, path):
        self.coop.point("exists")
        return str(path) in self.files

    def open(self, path, mode):
        name = str(path)
        if "x" in mode:
            self.coop.point("open-x")
            if name in self.files:
                raise FileExistsError(17, "File exists", name)
            self.files[name] = b""
            return _WFile(self, name)
        if "w" in mode:
            self.coop.point("open-w")
            self.files[name] = b""
            self.log.append((self.coop.me(), "truncate", _os.path.basename(name)))
            return _WFile(self, name)
        self.coop.point("open-r")
        if name not in self.files:
            raise FileNotFoundError(name)
        return io.BytesIO(self.files[name])

    def listdir(self, dirpath):
        """names in a directory: what is really there plus the cache files of the store"""
        self.coop.point("listdir")
        d = _os.path.abspath(str(dirpath))
        names = set()
        if _os.path.isdir(d):
            names |= {n for n in _os.listdir(d) if not self.is_cache(n)}
        names |= {_os.path.basename(f) for f in self.files if _os.path.dirname(f) == d}
        return sorted(names)

    def replace(self, src, dst):
        self.coop.point("replace")
        src, dst = str(src), str(dst)
        if src not in self.files:
            raise FileNotFoundError(src)
        self.files[dst] = self.files.pop(src)
        self.log.append((self.coop.me(), "replace", _os.path.basename(dst)))


class _WFile:
    def __init__(self, fs, name):
        self.fs, self.name = fs, name
        self.closed = False

    def write(self, data):
        data = bytes(data)
        k = self.fs.chunks
        n = len(data)
        cuts = sorted({(n * i) // k for i in range(1, k)} | {n})
        pos = 0
        for c in cuts:
            if c <= pos:
                continue
            self.fs.coop.point("write")
            # another writer may have truncated/replaced the file meanwhile: POSIX semantics of
            # two writers on one inode - each keeps its own offset; model as positional write
            cur = self.fs.files.get(self.name, b"")
            off = getattr(self, "off", 0)
            if len(cur) < off:
                cur = cur + b"\x00" * (off - len(cur))  # hole
            self.fs.files[self.name] = cur[:off] + data[pos:c] + cur[off + (c - pos):]
            self.off = off + (c - pos)
            pos = c
        return n

    def flush(self):
        pass

    def close(self):
        if not self.closed:
            self.fs.coop.point("close")
            self.closed = True

    def __enter__(self):
        return self

    def __exit__(self, *a):
        self.close()
        return False


def make_path_class(fs):
    base = type(pathlib.Path("/"))

    class VPath(base):
        def exists(self, **kw):
            if fs.is_cache(self):
                return fs.exists(self)
            if fs.is_virtual_dir(self):
                return fs.dir_exists(self)
            return super().exists(**kw)

        def is_dir(self, **kw):
            if fs.is_virtual_dir(self):
                return fs.dir_exists(self)
            return super().is_dir(**kw)

        def mkdir(self, mode=0o777, parents=False, exist_ok=False):
            if fs.is_virtual_dir(self):
                return fs.makedirs(self, exist_ok=exist_ok)
            return super().mkdir(mode=mode, parents=parents, exist_ok=exist_ok)

        def open(self, mode="r", *a, **kw):
            if fs.is_cache(self):
                return fs.open(self, mode)
            return super().open(mode, *a, **kw)

        def read_bytes(self):
            if fs.is_cache(self):
                with fs.open(self, "rb") as f:
                    return f.read()
            return super().read_bytes()

        def write_bytes(self, data):
            if fs.is_cache(self):
                with fs.open(self, "wb") as f:
                    return f.write(data)
            return super().write_bytes(data)

        def iterdir(self):
            for n in fs.listdir(self):
                yield type(self)(_os.path.join(str(self), n))

        def glob(self, pattern, **kw):
            import fnmatch
            if "/" in pattern or "**" in pattern:
                yield from super().glob(pattern, **kw)
                return
            for n in fs.listdir(self):
                if fnmatch.fnmatchcase(n, pattern):
                    yield type(self)(_os.path.join(str(self), n))

        def unlink(self, missing_ok=False):
            if fs.is_cache(self):
                fs.coop.point("unlink")
                if str(self) not in fs.files and not missing_ok:
                    raise FileNotFoundError(str(self))
                fs.files.pop(str(self), None)
                return None
            return super().unlink(missing_ok=missing_ok)

    return VPath


class RaceOS:
    """hw_model.os proxy for the race: virtual pid per participant, replace through the VFS"""

    def __init__(self, fs, coop):
        self.fs, self.coop = fs, coop

    def __getattr__(self, name):
        return getattr(_os, name)

    def getpid(self):
        me = self.coop.me()
        return 7000 + (me if me is not None else 99)

    def replace(self, src, dst, **kw):
        if self.fs.is_cache(src) or self.fs.is_cache(dst):
            return self.fs.replace(src, dst)
        return _os.replace(src, dst, **kw)

    def rename(self, src, dst, **kw):
        return self.replace(src, dst)

    def remove(self, path, **kw):
        if self.fs.is_cache(path):
            self.fs.coop.point("unlink")
            if str(path) not in self.fs.files:
                raise FileNotFoundError(str(path))
            del self.fs.files[str(path)]
            return None
        return _os.remove(path, **kw)

    unlink = remove

    def listdir(self, path="."):
        return self.fs.listdir(path)

    def access(self, path, mode, **kw):
        if mode == _os.W_OK and _os.path.abspath(str(path)) in self.fs.readonly_dirs:
            return False
        return True

    def makedirs(self, path, mode=0o777, exist_ok=False):
        if self.fs.is_virtual_dir(path):
            return self.fs.makedirs(path, exist_ok=exist_ok)
        return None

    def mkdir(self, path, *a, **kw):
        if self.fs.is_virtual_dir(path):
            return self.fs.makedirs(path, exist_ok=False)
        return None


class RaceGlob:
    """stands in for the glob module, should the code under test import it"""

    def __init__(self, fs):
        self.fs = fs

    def glob(self, pattern, **kw):
        import fnmatch
        d, pat = _os.path.split(pattern)
        return [_os.path.join(d, n) for n in self.fs.listdir(d or ".")
                if fnmatch.fnmatchcase(n, pat)]

    def iglob(self, pattern, **kw):
        return iter(self.glob(pattern, **kw))

    def escape(self, s):
        import glob as _g
        return _g.escape(s)
