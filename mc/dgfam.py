"""Synthetic ISA-database / latency-model families for the dependency-graph properties
(C03, C04, C05, C14): builders for models, instruction instances with their reference
read/write sets, and the comparison of an analysed kernel with the reference."""
import itertools
import os
import traceback

from mc import synth
from mc.ref import dg as RD
from mc.ref import regs as RR

ROLE = {"s": (True, False), "d": (False, True), "b": (True, True)}

POOLS = {
    "x86": {
        "gprA": ["rax", "eax", "rbx"],
        "gprBP": ["rbp", "ebp", "rbx"],
        "gprR8": ["r8", "r8d", "r9"],
        "gprAH": ["ecx", "ch", "rdx"],
        "gprSI": ["rsi", "sil", "di"],
        "vec": ["xmm1", "ymm1", "xmm2"],
    },
    "aarch64": {
        "gpr": ["x1", "w1", "x2"],
        "vec": ["d1", "v1.2d", "q2"],
        "pred": ["p1", "p2", "x1"],
    },
}


# mnemonics that are also written with an AT&T size suffix / AArch64 '.cond' suffix (the entry
# exists only under the bare name, so the documented fall-back must find it)
SUFFIXED = ("opbs", "opsd", "fr", "fw", "ldc", "ldcb", "st")


def res_of(isa, regname):
    n = regname.split(".")[0]
    c = RR.class_of(isa, n)
    assert c is not None, regname
    return c


def rtext(isa, r):
    return "%" + r if isa == "x86" else r


def _regpat(isa, src, dst):
    if isa == "x86":
        return {"class": "register", "name": "*", "source": src, "destination": dst}
    return {"class": "register", "prefix": "*", "shape": "*", "source": src, "destination": dst}


def _mempat(isa, src, dst):
    d = {"class": "memory", "base": "*", "offset": "*", "index": "*", "scale": "*",
         "source": src, "destination": dst}
    if isa == "aarch64":
        d["pre_indexed"] = "*"
        d["post_indexed"] = "*"
    return d


class Family:
    """One synthetic (ISA db, machine model) pair."""

    def __init__(self, isa, dirpath, name, p_index_latency=None, s2l=2.0):
        self.isa = isa
        self.name = name
        self.p_index = p_index_latency
        self.s2l = s2l
        self.mn = {}  # mnemonic -> dict(kind, roles, lat, hidden)
        isa_forms, mm_forms = [], []
        lat = 1

        def add(mn, kind, roles, hidden=(), in_isa=True, zi=False, fixed_lat=None):
            nonlocal lat
            lat += 1
            this_lat = float(lat if fixed_lat is None else fixed_lat)
            self.mn[mn] = dict(kind=kind, roles=roles, lat=this_lat, hidden=hidden, zi=zi,
                               in_isa=in_isa)
            ops_isa, ops_mm = [], []
            for r in roles:
                if r in "sdb":
                    s, d = ROLE[r]
                    ops_isa.append(_regpat(isa, s, d))
                    ops_mm.append(_regpat(isa, False, False))
                else:  # 'M' memory source, 'W' memory destination, 'X' both
                    ops_isa.append(_mempat(isa, r in "MX", r in "WX"))
                    ops_mm.append(_mempat(isa, False, False))
            if kind == "ldc":
                # composed: the model (and the ISA db) only know the register form
                rmw = "b" in roles
                if isa == "x86":
                    ops_mm = [_regpat(isa, False, False), _regpat(isa, False, False)]
                    ops_isa = [_regpat(isa, True, False), _regpat(isa, rmw, True)]
                else:
                    xp = {"class": "register", "prefix": "x"}
                    ops_mm = [dict(xp), dict(xp)]
                    ops_isa = [dict(xp, source=rmw, destination=True),
                               dict(xp, source=True, destination=False)]
            if in_isa:
                e = {"name": mn, "operands": ops_isa}
                if hidden:
                    e["hidden_operands"] = [
                        {"class": "flag", "name": f, "source": s, "destination": d}
                        for f, s, d in hidden]
                if zi:
                    e["breaks_dependency_on_equal_operands"] = True
                isa_forms.append(e)
            mm_forms.append(synth.form(mn, ops_mm, this_lat, 1.0, [[1, ["A", "B"]]]))

        # role letters are in *operand order as written* for the ISA
        for r1 in "sdb":
            for r2 in "sdb":
                add("op" + r1 + r2, "reg", r1 + r2)
        add("tssd" if isa == "x86" else "tdss", "reg", "ssd" if isa == "x86" else "dss")
        add("tsdb", "reg", "sdb")
        add("tbss", "reg", "bss")
        add("nodb", "reg", "sd" if isa == "x86" else "ds", in_isa=False)
        add("nodb1", "reg", "s", in_isa=False)
        add("zi", "reg", "sb" if isa == "x86" else "bs", zi=True, hidden=(("ZF", False, True),))
        # three-operand zero idiom: only three equal operands break the dependency
        add("zi3", "reg", "ssd" if isa == "x86" else "dss", zi=True)
        add("fw", "reg", "sd" if isa == "x86" else "ds", hidden=(("ZF", False, True),))
        add("fr", "reg", "sd" if isa == "x86" else "ds", hidden=(("ZF", True, False),))
        add("fc", "reg", "ss", hidden=(("CF", True, True),))
        add("mv0", "reg", "sd" if isa == "x86" else "ds", fixed_lat=0.0)
        add("tie", "reg", "sb" if isa == "x86" else "bs", fixed_lat=self.mn["opbs"]["lat"])
        add("ld", "mem", "Md" if isa == "x86" else "dM")
        add("st", "mem", "sW")
        add("rmw", "mem", "sX")   # read-modify-write of a memory location
        add("ldc", "ldc", "Md" if isa == "x86" else "dM")
        add("ldcb", "ldc", "Mb" if isa == "x86" else "bM")
        self.load_latency = 4.0
        extra = {"store_to_load_forward_latency": s2l}
        if p_index_latency is not None:
            extra["p_index_latency"] = p_index_latency
        mm = synth.machine_model(isa, ["A", "B"], mm_forms, arch_code="SYN",
                                 load_throughput_default=[[1, ["A"]]],
                                 store_throughput_default=[[1, ["B"]]], **extra)
        self.mm_path = synth.write(os.path.join(dirpath, "mm_%s.yml" % name), mm)
        self.isa_path = synth.write(os.path.join(dirpath, "isa_%s.yml" % name),
                                    synth.isa_db(isa, isa_forms))
        self._mm = self._sem = None

    def load(self):
        from mc import drive
        if self._mm is None:
            self._mm = drive.MachineModel(path_to_yaml=self.mm_path)
            self._sem = drive.ArchSemantics(self._mm, path_to_yaml=self.isa_path)
        return self._mm, self._sem

    # -- instruction instances ----------------------------------------------------------
    def instances(self, pool, mnemonics=None):
        """list of (key, RI). key = (mnemonic, operand-spec tuple)"""
        isa = self.isa
        regs = POOLS[isa][pool]
        out = []
        for mn, d in self.mn.items():
            if mnemonics is not None and mn not in mnemonics:
                continue
            spells = [mn]
            if mn in SUFFIXED:
                spells.append(mn + ("q" if isa == "x86" else ".ne"))
            if d["kind"] == "reg":
                for ops in itertools.product(regs, repeat=len(d["roles"])):
                    for sp in spells:
                        out.append(((sp, ops), self.ri_reg(mn, ops, sp)))
            elif d["kind"] in ("mem", "ldc"):
                if pool not in ("gprA", "gpr"):
                    continue
                if d["kind"] == "ldc" and isa == "aarch64":
                    dregs = [r for r in regs if r.startswith("x")]
                else:
                    dregs = regs
                aregs = [r for r in regs if r[0] in "rx"]
                modes = ["off"] if isa == "x86" else ["off", "pre", "post"]
                for data in dregs:
                    for base in aregs:
                        for mode in modes:
                            for sp in spells:
                                out.append(((sp, (data, base, mode)),
                                            self.ri_mem(mn, data, base, mode, sp)))
        return out

    def ri_reg(self, mn, ops, spell=None):
        isa, d = self.isa, self.mn[mn]
        text = "%s %s" % (spell or mn, ", ".join(rtext(isa, o) for o in ops))
        reads, writes = set(), set()
        if d["zi"] and all(o == ops[0] for o in ops):
            writes |= {res_of(isa, o) for o in ops}
            for f, s, dd in d["hidden"]:
                writes.add(("flag", f))
        else:
            for r, o in zip(d["roles"], ops):
                if r in "sb":
                    reads.add(res_of(isa, o))
                if r in "db":
                    writes.add(res_of(isa, o))
            for f, s, dd in d["hidden"]:
                if s:
                    reads.add(("flag", f))
                if dd:
                    writes.add(("flag", f))
        return RD.RI(text, reads, writes, lat=d["lat"], tag=mn)

    def ri_mem(self, mn, data, base, mode, spell=None):
        isa, d = self.isa, self.mn[mn]
        sp = spell or mn
        is_store = mn in ("st", "rmw")
        is_rmw = mn == "rmw"
        # never the same location, even after write-back bumps - except that an rmw reads and
        # writes its own location
        disp = (2000 if is_rmw else 1000) if is_store else 8
        if isa == "x86":
            m = "%d(%%%s)" % (disp, base)
            text = "%s %s, %s" % (sp, rtext(isa, data), m) if is_store else \
                "%s %s, %s" % (sp, m, rtext(isa, data))
        else:
            if mode == "off":
                m = "[%s, #%d]" % (base, disp)
            elif mode == "pre":
                m = "[%s, #%d]!" % (base, disp)
            else:
                m = "[%s], #%d" % (base, disp)
            text = "%s %s, %s" % (sp, data, m)
        reads = {res_of(isa, base)}
        writes, wb = set(), set()
        if is_store:
            reads.add(res_of(isa, data))
        else:
            writes.add(res_of(isa, data))
            if "b" in d["roles"]:
                reads.add(res_of(isa, data))
        if mode in ("pre", "post"):
            writes.add(res_of(isa, base))
            wb.add(res_of(isa, base))
        lat = d["lat"]
        load_node = False
        lat_exec = lat
        if d["kind"] == "ldc":
            load_node = True
            lat_exec = lat
            lat = lat + self.load_latency
        # address as a linear form for the store->load reference (mc/ref/dg.py:memdep_edges)
        rb = res_of(isa, base)
        changes, post_changes = {}, {}
        if mode == "pre":
            ref = RD.MemRef(rb, None, 1, 0, text=m if is_store else None)
            changes = {rb: ("add", disp)}
        elif mode == "post":
            ref = RD.MemRef(rb, None, 1, 0, text=m if is_store else None)
            post_changes = {rb: ("add", disp)}
        else:
            ref = RD.MemRef(rb, None, 1, disp, text=m if is_store else None)
        return RD.RI(text, reads, writes, wb=wb, lat=lat, lat_exec=lat_exec,
                     load_node=load_node, tag=mn, loads=[ref] if (is_rmw or not is_store) else [],
                     stores=[ref] if is_store else [], changes=changes,
                     post_changes=post_changes)


# ---------------------------------------------------------------------------------------

_PARSE_CACHE = {}


def parsed_kernel(isa, texts, start_line=0, via_parse_file=False, line_numbers=None):
    """Kernel as the real parser produces it.  Each distinct line is parsed once by the real
    parse_line and the (pickled) result is re-instantiated per kernel - the parsers are
    deterministic functions of the line (C09/C10 own them); kernels of length 1 go through
    parse_file itself."""
    import pickle
    from mc import drive
    parser = drive.get_parser(isa)
    if line_numbers is not None:
        # increasing but not consecutive numbers: what parse_file yields for a region with empty
        # lines in it, or --lines for several pieces of a file (C11 owns that numbering)
        assert len(line_numbers) == len(texts) and sorted(set(line_numbers)) == list(line_numbers)
    if (via_parse_file or len(texts) == 1) and line_numbers is None:
        return parser, parser.parse_file("\n".join(texts) + "\n", start_line)
    kernel = []
    for i, t in enumerate(texts):
        b = _PARSE_CACHE.get((isa, t))
        if b is None:
            b = pickle.dumps(parser.parse_line(t, 0))
            _PARSE_CACHE[(isa, t)] = b
        f = pickle.loads(b)
        f.line_number = start_line + i + 1 if line_numbers is None else line_numbers[i]
        kernel.append(f)
    return parser, kernel


def warm_parse_cache(isa, texts):
    import pickle
    from mc import drive
    parser = drive.get_parser(isa)
    for t in texts:
        if (isa, t) not in _PARSE_CACHE:
            _PARSE_CACHE[(isa, t)] = pickle.dumps(parser.parse_line(t, 0))


def observe(fam, ris, flags, timeout=-1, start_line=0, full=True, line_numbers=None):
    """Run the real analysis on the kernel made of the RIs' texts.  full=False builds only the
    dependency graph (create_DG) without the loop-carried search of the constructor."""
    from mc import drive
    mm, sem = fam.load()
    parser, kernel = parsed_kernel(fam.isa, [r.text for r in ris], start_line,
                                   line_numbers=line_numbers)
    sem.add_semantics(kernel)
    if full:
        g = drive.KernelDG(kernel, parser, mm, sem, timeout=timeout, flag_dependencies=flags)
    else:
        g = drive.graph_only(kernel, parser, mm, sem, flags)
    return kernel, g


def expected_edges(fam, ris, flags):
    p_idx = fam.p_index if fam.p_index is not None else 1.0
    return RD.raw_edges(ris, flags, p_idx)


def compare_edges(fam, ris, kernel, g, flags):
    """-> (list of problems, n_comparisons, ambiguous_pairs, weights actually used)"""
    ln = [k.line_number for k in kernel]
    idx = {l: i for i, l in enumerate(ln)}
    got = {}
    load_nodes = {}
    probs = []
    for a, b, d in g.dg.edges(data=True):
        if a != int(a):
            load_nodes[idx[int(a)]] = d["latency"]
            if int(a) != b:
                probs.append(("load-node", "load node %s points to %s" % (a, b)))
            continue
        got[(idx[a], idx[b])] = d["latency"]
    exp = expected_edges(fam, ris, flags)
    n = 0
    amb = 0
    for e in sorted(set(got) | set(exp)):
        n += 1
        i, j = e
        if e not in got:
            probs.append(("missing", "no edge %d->%d (%s -> %s), expected weight %s"
                          % (i, j, ris[i].text, ris[j].text, sorted(exp[e]))))
        elif e not in exp:
            probs.append(("spurious", "edge %d->%d (%s -> %s, weight %s) but %s reads nothing "
                          "that %s writes last" % (i, j, ris[i].text, ris[j].text, got[e],
                                                   ris[j].text, ris[i].text)))
        else:
            if i >= j:
                probs.append(("backward", "edge %d->%d points backwards" % (i, j)))
            if len(exp[e]) > 1:
                amb += 1
            if not any(abs(got[e] - w) < 1e-9 for w in exp[e]):
                probs.append(("weight", "edge %d->%d (%s -> %s) has weight %s, expected %s"
                              % (i, j, ris[i].text, ris[j].text, got[e], sorted(exp[e]))))
    for i, r in enumerate(ris):
        n += 1
        if r.load_node:
            w = load_nodes.get(i)
            if w is None or abs(w - (r.lat - r.lat_exec)) > 1e-9:
                probs.append(("load-node", "load stage of %r: weight %r, expected %r"
                              % (r.text, w, r.lat - r.lat_exec)))
        elif i in load_nodes:
            probs.append(("load-node", "unexpected separate load node for %r" % r.text))
    return probs, n, amb, got
