"""Shared plumbing: context, violations, evidence, known findings, process pool.

Nothing in here imports osaca: the scratch HOME must be in place before osaca is imported
(osaca.utils computes DATA_DIRS / CACHE_DIR from '~' at import time).
"""
import concurrent.futures as cf
import hashlib
import json
import multiprocessing as mp
import os
import shutil
import sys
import tempfile
import time
import traceback

VERIF = os.path.dirname(os.path.dirname(os.path.abspath(__file__)))
REPO = os.environ.get("OSACA_REPO", "/repo")
NPROC = int(os.environ.get("VERIF_NPROC", str(min(16, os.cpu_count() or 1))))
MAX_VIOLATION_LINES = 20


class Ctx:
    def __init__(self, prop, tier, seed):
        self.prop = prop
        self.tier = tier
        self.seed = seed
        self.thorough = tier == "thorough"
        self.t0 = time.time()
        base = os.environ.get("TMPDIR") or ("/dev/shm" if os.path.isdir("/dev/shm") else "/tmp")
        self.scratch = tempfile.mkdtemp(prefix="osaca_verif_%s_" % prop, dir=base)
        self.home = os.path.join(self.scratch, "home")
        os.makedirs(self.home)

    def sub(self, name):
        d = os.path.join(self.scratch, name)
        os.makedirs(d, exist_ok=True)
        return d

    def cleanup(self):
        shutil.rmtree(self.scratch, ignore_errors=True)


class Violation:
    """One counterexample. key: flat dict used for de-duplication and known-finding matching."""

    def __init__(self, key, what, replay):
        self.key = dict(key)
        self.what = what
        self.replay = replay

    def digest(self):
        return hashlib.sha256(
            json.dumps(self.key, sort_keys=True, default=str).encode()
        ).hexdigest()[:16]

    def to_json(self):
        return {"key": self.key, "what": self.what, "replay": self.replay}


class Result:
    def __init__(self):
        self.states = 0  # distinct inputs / states explored
        self.transitions = 0  # reference-vs-implementation comparisons / steps
        self.traces = 0  # executions of the real implementation
        self.evaluations = 0
        self.nontrivial = 0
        self.samples = []
        self.outcomes = set()
        self.violations = []
        self.unspecified = 0
        self.exhaustive = True
        self.caps_hit = []
        self.bounds = {}
        self.assumptions = []
        self.rule = ""
        self.extra = {}

    def add_sample(self, s, cap=6):
        if len(self.samples) < cap:
            self.samples.append(s)

    def merge(self, other):
        self.states += other.states
        self.transitions += other.transitions
        self.traces += other.traces
        self.evaluations += other.evaluations
        self.nontrivial += other.nontrivial
        for s in other.samples:
            self.add_sample(s)
        self.outcomes |= other.outcomes
        self.violations += other.violations
        self.unspecified += other.unspecified
        self.exhaustive = self.exhaustive and other.exhaustive
        self.caps_hit += other.caps_hit
        for k, v in other.extra.items():
            if isinstance(v, (int, float)) and isinstance(self.extra.get(k, 0), (int, float)):
                self.extra[k] = self.extra.get(k, 0) + v
            else:
                self.extra[k] = v


def load_known_findings():
    path = os.path.join(VERIF, "known_findings.json")
    if not os.path.exists(path):
        return []
    with open(path) as f:
        data = json.load(f)
    return data.get("findings", [])


def match_finding(finding, violation, prop):
    if finding.get("property") != prop:
        return False
    m = finding.get("match", {})
    for k, v in m.items():
        got = violation.key.get(k)
        if isinstance(v, list):
            if got not in v:
                return False
        elif got != v:
            return False
    return True


def finish(ctx, res, level="model_checking"):
    """Apply known findings, write replays + evidence, print verdict, return exit code."""
    findings = load_known_findings()
    hit = {}
    real = []
    for v in res.violations:
        for i, f in enumerate(findings):
            if match_finding(f, v, ctx.prop):
                hit.setdefault(i, 0)
                hit[i] += 1
                break
        else:
            real.append(v)
    for i, n in sorted(hit.items()):
        print("KNOWN-FINDING: property=%s %s (%d occurrence(s) in this run)"
              % (ctx.prop, findings[i]["what"], n))
    # distinct violation classes
    classes = {}
    for v in real:
        classes.setdefault(v.digest(), v)
    outroot = os.environ.get("VERIF_OUT", VERIF)
    rdir = os.path.join(outroot, "replays", ctx.prop)
    lines = 0
    for dg, v in classes.items():
        os.makedirs(rdir, exist_ok=True)
        path = os.path.join(rdir, dg + ".json")
        with open(path, "w") as f:
            json.dump({"property": ctx.prop, **v.to_json()}, f, indent=1, default=str)
        if lines < MAX_VIOLATION_LINES:
            print("VIOLATION property=%s replay=%s" % (ctx.prop, path))
            print("  " + v.what[:600])
            lines += 1
    wall = time.time() - ctx.t0
    cov = {
        "states": int(res.states),
        "transitions": int(res.transitions),
        "traces_validated_against_impl": int(res.traces),
        "samples": res.samples or ["<none>"],
        "evaluations": int(res.evaluations or res.traces or res.states),
        "distinct_nontrivial": int(res.nontrivial or res.states),
        "rule": res.rule,
        "exhaustive": bool(res.exhaustive and not res.caps_hit),
        "bounds": res.bounds,
        "caps_hit": res.caps_hit,
        "outcomes_distinct": len(res.outcomes),
        "unspecified_not_checked": int(res.unspecified),
        "known_finding_occurrences": int(sum(hit.values())),
        "violation_classes": len(classes),
    }
    cov.update(res.extra)
    ev = {
        "property_id": ctx.prop,
        "tier": ctx.tier,
        "seed": int(ctx.seed),
        "level": level,
        "coverage": cov,
        "assumptions": res.assumptions,
        "wall_s": round(wall, 2),
        "violations": len(real),
    }
    os.makedirs(os.path.join(outroot, "evidence"), exist_ok=True)
    with open(os.path.join(outroot, "evidence", ctx.prop + ".json"), "w") as f:
        json.dump(ev, f, indent=1, default=str)
    print("%s tier=%s seed=%d states=%d transitions=%d impl_executions=%d outcomes=%d "
          "unspecified=%d known=%d violations=%d exhaustive=%s wall=%.1fs"
          % (ctx.prop, ctx.tier, ctx.seed, res.states, res.transitions, res.traces,
             len(res.outcomes), res.unspecified, sum(hit.values()), len(real),
             cov["exhaustive"], wall))
    return 1 if real else 0


# ---------------------------------------------------------------------------------------
# process pool (fork: the parent prepares models etc. before the pool is created)

_POOL_FUNC = None


def _run_chunk(args):
    idx, chunk = args
    out = []
    for item in chunk:
        try:
            out.append(_POOL_FUNC(item))
        except BaseException:
            out.append(("__harness_error__", traceback.format_exc(), repr(item)[:500]))
    return idx, out


class HarnessError(Exception):
    pass


def pmap(func, items, chunk=None, nproc=None):
    """Map func over items in forked worker processes (non-daemonic), keeping order.

    An exception escaping func is a bug of the harness (checks catch OSACA exceptions
    themselves and turn them into violations) and aborts the run loudly.
    """
    global _POOL_FUNC
    items = list(items)
    nproc = nproc or NPROC
    if not items:
        return []
    if chunk is None:
        chunk = max(1, min(200, len(items) // (nproc * 4) or 1))
    chunks = [(i, items[i:i + chunk]) for i in range(0, len(items), chunk)]
    _POOL_FUNC = func
    results = {}
    if nproc <= 1 or len(chunks) == 1:
        for c in chunks:
            i, out = _run_chunk(c)
            results[i] = out
    else:
        ctxm = mp.get_context("fork")
        with cf.ProcessPoolExecutor(max_workers=nproc, mp_context=ctxm) as ex:
            for i, out in ex.map(_run_chunk, chunks):
                results[i] = out
    flat = []
    for i in sorted(results):
        for r in results[i]:
            if isinstance(r, tuple) and len(r) == 3 and r[0] == "__harness_error__":
                raise HarnessError("worker failed on %s\n%s" % (r[2], r[1]))
            flat.append(r)
    return flat


def rotate(items, seed):
    """VERIF_SEED only rotates the enumeration start; the explored set is unchanged."""
    items = list(items)
    if not items:
        return items
    k = seed % len(items)
    return items[k:] + items[:k]
