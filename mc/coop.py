"""Generic cooperative-thread schedule explorer (E2) - used for the cache race of C17.

Participants are threads running real code; shims call point(label) before every operation on
shared state.  Exactly one thread runs at a time.  A schedule is the list of choices (index into
the canonical list of runnable participants: the one that ran last first if still runnable, then
ascending ids); switching away from a runnable participant costs one preemption."""
import threading


class _Abort(BaseException):
    pass


class Coop:
    def __init__(self, prefix):
        self.prefix = list(prefix)
        self.choices = []
        self.noptions = []
        self.preempt = []      # whether choice i (alt != 0) would be a preemption
        self.parts = []
        self.back = threading.Semaphore(0)
        self.local = threading.local()
        self.last = None
        self.errors = {}
        self.results = {}
        self.trace = []

    def add(self, fn):
        p = {"id": len(self.parts), "fn": fn, "go": threading.Semaphore(0), "state": "ready",
             "thread": None, "abort": False}
        self.parts.append(p)
        return p["id"]

    def me(self):
        return getattr(self.local, "pid", None)

    def point(self, label):
        pid = self.me()
        if pid is None:
            return
        p = self.parts[pid]
        self.trace.append((pid, label))
        p["state"] = "ready"
        self.back.release()
        p["go"].acquire()
        if p["abort"]:
            raise _Abort()

    def _body(self, p):
        self.local.pid = p["id"]
        p["go"].acquire()
        try:
            if p["abort"]:
                raise _Abort()
            self.results[p["id"]] = p["fn"]()
        except _Abort:
            pass
        except BaseException as e:
            import traceback
            self.errors[p["id"]] = "%s: %s\n%s" % (type(e).__name__, e,
                                                   traceback.format_exc()[-1200:])
        finally:
            p["state"] = "done"
            self.back.release()

    def run(self, max_steps=100000):
        for p in self.parts:
            p["thread"] = threading.Thread(target=self._body, args=(p,), daemon=True)
            p["thread"].start()
        steps = 0
        while True:
            ready = [p for p in self.parts if p["state"] == "ready"]
            if not ready:
                break
            ready.sort(key=lambda p: (0 if p["id"] == self.last else 1, p["id"]))
            i = len(self.choices)
            if i < len(self.prefix):
                c = self.prefix[i]
                if c >= len(ready):
                    self.abort_all()
                    raise RuntimeError("replay divergence at choice %d" % i)
            else:
                c = 0
            self.choices.append(c)
            self.noptions.append(len(ready))
            self.preempt.append(bool(ready) and ready[0]["id"] == self.last)
            p = ready[c]
            self.last = p["id"]
            p["state"] = "running"
            p["go"].release()
            self.back.acquire()
            steps += 1
            if steps > max_steps:
                self.abort_all()
                raise RuntimeError("step horizon exceeded (livelock?)")
        for p in self.parts:
            p["thread"].join(5)

    def abort_all(self):
        for p in self.parts:
            if p["state"] != "done":
                p["abort"] = True
                p["go"].release()
        for p in self.parts:
            if p["thread"] is not None:
                p["thread"].join(2)


def explore(make_and_run, bound=None, max_executions=None):
    """make_and_run(prefix) -> (coop, observation).  DFS; bound = max preemptions (None: all)."""
    stack = [[]]
    n = 0
    while stack:
        prefix = stack.pop()
        coop, obs = make_and_run(prefix)
        n += 1
        yield coop.choices, obs
        if max_executions and n >= max_executions:
            return
        for i in range(len(coop.choices) - 1, len(prefix) - 1, -1):
            cost = sum(1 for j in range(i) if coop.choices[j] != 0 and coop.preempt[j])
            for alt in range(coop.noptions[i] - 1, 0, -1):
                c = cost + (1 if coop.preempt[i] else 0)
                if bound is not None and c > bound:
                    continue
                stack.append(coop.choices[:i] + [alt])
