"""Reference for instruction-form lookup: operand *kinds*, the match relation between an
entry's operand pattern (plain YAML dict) and an instruction operand kind, and a synthesiser
that writes an operand lying inside a pattern.

Nothing here imports osaca.semantics; kinds of instruction operands are read off the parsed
operand objects' plain attributes by kind_of().
Return value of match(): True / False / None (None = the property statement does not define
this combination; such cases are excluded and counted)."""
import re

WILD = "*"


# ------------------------------------------------------------------------------------------
# kinds of parsed instruction operands

def _x86_reg_class(name):
    n = name.lower()
    m = re.match(r"^(xmm|ymm|zmm|mm)\d+$", n)
    if m:
        return m.group(1)
    if re.match(r"^k\d$", n):
        return "k"
    if re.match(r"^(r\d+[dwb]?|[re]?[abcd]x|[abcd][hl]|[re]?[sd]il?|[re]?[sb]pl?|rip|eip)$", n):
        return "gpr"
    return "other"


def kind_of(isa, op):
    """op: operand object produced by the real parser"""
    cn = type(op).__name__
    if cn == "RegisterOperand":
        if isa == "x86":
            return {"k": "reg", "cls": _x86_reg_class(op.name)}
        return {"k": "reg", "prefix": op.prefix, "shape": op.shape}
    if cn == "ImmediateOperand":
        if op.identifier is not None and op.value is None:
            return {"k": "id"}
        t = op.imd_type or "int"
        return {"k": "imm", "t": t}
    if cn == "IdentifierOperand":
        return {"k": "id"}
    if cn == "ConditionOperand":
        return {"k": "cond", "cc": (op.ccode or "").upper()}
    if cn == "PrefetchOperand":
        return {"k": "prf"}
    if cn == "MemoryOperand":
        def r(x):
            if x is None:
                return None
            if isa == "x86":
                return _x86_reg_class(x.name)
            return x.prefix
        off = None
        if op.offset is not None:
            off = "id" if type(op.offset).__name__ == "IdentifierOperand" else "imd"
        return {"k": "mem", "base": r(op.base), "index": r(op.index), "offset": off,
                "scale": op.scale, "pre": bool(op.pre_indexed), "post": bool(op.post_indexed)}
    return {"k": "unknown", "repr": repr(op)[:80]}


# ------------------------------------------------------------------------------------------
# match relation

def _reg_x86(pname, cls):
    if pname == WILD:
        return True
    if cls in ("k", "other"):
        # mask / segment / unknown register classes: only the identical class name is defined
        if pname == cls:
            return True
        return None
    return pname == cls


def _reg_a64(pat, kind):
    pp, ps = pat.get("prefix"), pat.get("shape")
    if pp is None:
        return None
    pp = str(pp).lower()
    ps = None if ps is None else str(ps).lower()
    kp, ks = kind["prefix"], kind["shape"]
    if kp in ("v", "z") and ks is None and ps is not None:
        return None  # vector register written without a shape: not defined by the statement
    if pp != WILD and pp != kp:
        return False
    if ks is not None:
        if ps is None:
            return False
        return ps == WILD or ks == WILD or ps == ks
    return True


def _mem_reg(isa, p, k):
    """pattern field p (None, '*', class/prefix string or dict) vs instruction register class k"""
    if isinstance(p, dict):
        p = p.get("name") if isa == "x86" else p.get("prefix")
    if p == WILD:
        return True
    if p is None:
        return k is None
    if k is None:
        return False
    if isa == "x86":
        return _reg_x86(p, k)
    return str(p).lower() == k


def _mem(isa, pat, kind):
    res = []
    res.append(_mem_reg(isa, pat.get("base"), kind["base"]))
    res.append(_mem_reg(isa, pat.get("index"), kind["index"]))
    po, ko = pat.get("offset"), kind["offset"]
    if po == WILD:
        res.append(True)
    elif po is None:
        res.append(ko is None)
    elif po == "imd":
        res.append(ko == "imd")
    elif po == "id":
        res.append(ko == "id")
    else:
        res.append(None)
    ps, ks = pat.get("scale"), kind["scale"]
    if ps == WILD:
        res.append(True)
    else:
        if ps is None:
            ps = 1
        res.append((ps == 1) == (ks == 1))
    if isa == "aarch64":
        for f, kf in (("pre_indexed", "pre"), ("post_indexed", "post")):
            pv = pat.get(f, False)
            res.append(True if pv == WILD else bool(pv) == kind[kf])
    if any(x is False for x in res):
        return False
    if any(x is None for x in res):
        return None
    return True


def match(isa, pat, kind):
    pc = pat.get("class")
    k = kind["k"]
    if k == "unknown":
        return None
    if pc == "register":
        if k != "reg":
            return False
        if isa == "x86":
            pn = pat.get("name")
            if pn is None:
                return None
            return _reg_x86(str(pn).lower(), kind["cls"])
        return _reg_a64(pat, kind)
    if pc == "memory":
        if k != "mem":
            return False
        return _mem(isa, pat, kind)
    if pc == "immediate":
        if k != "imm":
            return False
        t = pat.get("imd")
        if isa == "x86":
            return t == "int"
        if t == WILD:
            return True
        return t == kind["t"]
    if pc == "identifier":
        return k == "id"
    if pc == "condition":
        if k != "cond":
            return False
        cc = str(pat.get("ccode", "")).upper()
        return cc == WILD or cc == kind["cc"]
    if pc == "prfop":
        return k == "prf"
    return None


def match_operands(isa, pats, kinds):
    if len(pats) != len(kinds):
        return False
    rs = [match(isa, p, k) for p, k in zip(pats, kinds)]
    if any(r is False for r in rs):
        return False
    if any(r is None for r in rs):
        return None
    return True


# ------------------------------------------------------------------------------------------
# synthesiser: text of an operand inside the pattern (None = cannot be written)

X86_GPR = ["rax", "rbx", "rcx", "rdx", "rsi", "rdi", "r8", "r9"]
A64_SHAPE = {"b": "16b", "h": "8h", "s": "4s", "d": "2d", "q": "1q"}
CCODES = ["EQ", "NE", "CS", "HS", "CC", "LO", "MI", "PL", "VS", "VC", "HI", "LS", "GE", "LT",
          "GT", "LE", "AL"]


def synth(isa, pat, pos, variant=0):
    pc = pat.get("class")
    if isa == "x86":
        return _synth_x86(pat, pc, pos, variant)
    return _synth_a64(pat, pc, pos, variant)


def _synth_x86(pat, pc, pos, variant):
    if pc == "register":
        n = pat.get("name")
        if n is None:
            return None
        n = str(n).lower()
        if n in ("gpr", WILD):
            return "%" + X86_GPR[(pos + variant) % len(X86_GPR)]
        if n in ("xmm", "ymm", "zmm"):
            t = "%%%s%d" % (n, pos + 1 + variant)
            return t
        if n == "mm":
            return "%%mm%d" % ((pos + variant) % 8)
        if n == "k":
            return "%%k%d" % (1 + (pos + variant) % 7)
        return None
    if pc == "immediate":
        return "$%d" % (1 + variant) if pat.get("imd") == "int" else None
    if pc == "identifier":
        return ".L%d" % (3 + variant)
    if pc == "memory":
        def reg(p, default):
            if isinstance(p, dict):
                p = p.get("name")
            if p is None:
                return None
            if p in ("gpr", WILD):
                return default
            return False
        b = reg(pat.get("base"), "rsi")
        i = reg(pat.get("index"), "rdi") if pat.get("index") is not None else None
        if pat.get("index") == WILD:
            i = "rdi" if variant % 2 == 0 else None
        if b is False or i is False:
            return None
        po = pat.get("offset")
        if po in ("imd", WILD):
            off = "16"
        elif po is None:
            off = ""
        elif po == "id":
            off = "sym"
        else:
            return None
        ps = pat.get("scale")
        if ps == WILD:
            sc = "8" if i else None
        elif ps in (1, None):
            sc = None
        else:
            sc = "8"
            if not i:
                return None
        if b is None and i is None:
            return off if off else None
        s = off + "("
        if b:
            s += "%" + b
        if i:
            s += ",%" + i
            if sc:
                s += "," + sc
        return s + ")"
    return None


def _synth_a64(pat, pc, pos, variant):
    num = 1 + pos + variant
    if pc == "register":
        p = pat.get("prefix")
        if p is None:
            return None
        p = str(p).lower()
        sh = pat.get("shape")
        sh = None if sh is None else str(sh).lower()
        if p == WILD:
            if sh is None:
                return "x%d" % num
            p = "v"
        if p in "xwbhsdq" and len(p) == 1:
            return "%s%d" % (p, num)
        if p in ("v", "z"):
            if sh is None:
                return None  # shapeless vector register: outside the defined kinds
            if sh == WILD:
                sh = "d"
            if sh not in A64_SHAPE:
                return None
            return "v%d.%s" % (num, A64_SHAPE[sh]) if p == "v" else "z%d.%s" % (num, sh)
        if p == "p":
            if sh is not None:
                return "p%d.%s" % (num % 8, "d" if sh == WILD else sh)
            pr = pat.get("predication")
            if pr is None:
                return "p%d" % (num % 8)
            return "p%d/%s" % (num % 8, "m" if pr in (WILD, "m") else "z")
        return None
    if pc == "immediate":
        t = pat.get("imd")
        if t in ("int", WILD):
            return "#%d" % (1 + variant)
        if t == "double":
            return "#1.5"
        if t == "float":
            return "#1.5e+0f"
        return None
    if pc == "identifier":
        return ".LBB0_%d" % (3 + variant)
    if pc == "condition":
        cc = str(pat.get("ccode", "")).upper()
        if cc == WILD:
            return "ne"
        return cc.lower() if cc in CCODES else None
    if pc == "prfop":
        return "pldl1keep"
    if pc == "memory":
        b = pat.get("base")
        if b == WILD:
            b = "x"
        if b is None:
            return None
        b = str(b).lower()
        if b not in ("x", "w"):
            return None
        base = "%s%d" % (b, 10 + pos)
        pre, post = pat.get("pre_indexed", False), pat.get("post_indexed", False)
        pre = False if pre == WILD else bool(pre)
        post = False if post == WILD else bool(post)
        if pre and post:
            return None
        idx = pat.get("index")
        off = pat.get("offset")
        sc = pat.get("scale")
        if pre:
            # [xN, #imm]!
            if idx not in (None, WILD) or off not in ("imd", WILD):
                return None
            if sc not in (WILD, 1, None):
                return None
            return "[%s, #16]!" % base
        if idx not in (None, WILD):
            ip = str(idx).lower()
            if ip == "gpr":
                ip = "x"
            if ip not in ("x", "w", "z"):
                return None
            if off not in (None, WILD):
                return None
            ireg = "%s%d" % (ip, 20 + pos) if ip != "z" else "z%d.d" % (20 + pos)
            if sc == WILD or (sc not in (1, None)):
                body = "[%s, %s, lsl #3]" % (base, ireg)
            else:
                body = "[%s, %s]" % (base, ireg)
        else:
            if sc not in (WILD, 1, None):
                return None
            if off in ("imd",):
                body = "[%s, #16]" % base
            elif off == WILD:
                body = "[%s, #16]" % base if variant % 2 == 0 else "[%s]" % base
            elif off is None:
                body = "[%s]" % base
            else:
                return None
        if post:
            if idx not in (None, WILD) or (off not in (None, WILD)):
                # [xN], #imm has no offset inside the brackets
                if off == "imd":
                    return None
            return "[%s], #16" % base
        return body
    return None


# ------------------------------------------------------------------------------------------
# domain of the pattern fields (a value outside it can never be matched by any instruction)

X86_REG_CLASSES = ("gpr", "xmm", "ymm", "zmm", "mm", "k", WILD)
A64_PREFIXES = tuple("xwbhsdqvzp") + (WILD,)
A64_SHAPES = ("b", "h", "s", "d", "q", WILD)


def pattern_problem(isa, pat):
    """None if every field of the operand pattern has a value of its documented domain, else a
    description of the first field that has not"""
    if not isinstance(pat, dict) or "class" not in pat:
        return "operand pattern %r is not a mapping with a class" % (pat,)
    pc = pat["class"]
    if pc == "register":
        if isa == "x86":
            n = pat.get("name")
            if not isinstance(n, str):
                return "register pattern without a name (%r)" % (n,)
            if n.lower() not in X86_REG_CLASSES and _x86_reg_class(n) == "other":
                return "register class %r is none of %s" % (n, "/".join(X86_REG_CLASSES))
            return None
        p = pat.get("prefix")
        if not isinstance(p, str) or p.lower() not in A64_PREFIXES:
            return "register prefix %r is none of %s" % (p, "".join(A64_PREFIXES))
        sh = pat.get("shape")
        if sh is not None and str(sh).lower() not in A64_SHAPES:
            return "register shape %r is none of %s" % (sh, "/".join(A64_SHAPES))
        return None
    if pc == "memory":
        regs = ("gpr", WILD) if isa == "x86" else A64_PREFIXES
        for f in ("base", "index"):
            v = pat.get(f)
            if isinstance(v, dict):
                v = v.get("name") if isa == "x86" else v.get("prefix")
            if v is not None and (not isinstance(v, str) or v.lower() not in regs):
                return "memory %s %r is none of %s" % (f, v, "/".join(regs))
        v = pat.get("offset")
        if v is not None and v not in (WILD, "imd", "id"):
            return "memory offset %r is none of ~, *, imd, id" % (v,)
        v = pat.get("scale")
        if v is not None and v != WILD and (isinstance(v, bool) or not isinstance(v, int)):
            return "memory scale %r is neither an integer nor *" % (v,)
        for f in ("pre_indexed", "post_indexed"):
            v = pat.get(f, False)
            if v is not None and v != WILD and not isinstance(v, bool):
                return "memory %s %r is neither a boolean nor *" % (f, v)
        return None
    if pc == "immediate":
        v = pat.get("imd")
        ok = ("int",) if isa == "x86" else ("int", "float", "double", WILD)
        if v not in ok:
            return "immediate type %r is none of %s" % (v, "/".join(ok))
        return None
    if pc == "condition":
        v = str(pat.get("ccode", "")).upper()
        if v != WILD and v not in CCODES:
            return "condition code %r is not an AArch64 condition" % (pat.get("ccode"),)
        return None
    if pc in ("identifier", "prfop"):
        return None
    return "operand class %r is unknown" % (pc,)
