"""Reference semantics for dependency graphs, critical path and loop-carried dependencies.

Deliberately boring: an instruction is described by explicit read / write sets over
architectural resources (register classes from ref/regs.py, flags) plus latencies; nothing
here imports osaca.

RI fields
  text      assembly line
  reads     set of resources read (registers incl. address registers, flags as ('flag', name))
  writes    set of resources written
  wb        subset of writes that is written by address write-back (pre-/post-index)
  lat       total latency, lat_exec latency without the separately modelled load stage
  load_node True if the analysis models the load stage as a node of its own
  loads / stores: lists of MemRef for the store-to-load relation (C06)
  changes   {resource: ('add', c) | ('copy', src_resource) | None(untracked)} applied *before*
            the address of this instruction is formed if pre, else after; see track()
"""
import itertools


class MemRef:
    def __init__(self, base=None, index=None, scale=1, disp=0, text=None):
        self.base, self.index, self.scale, self.disp, self.text = base, index, scale, disp, text

    def __repr__(self):
        return "Mem(%s,%s,%s,%s)" % (self.base, self.index, self.scale, self.disp)


class RI:
    def __init__(self, text, reads=(), writes=(), wb=(), lat=1.0, lat_exec=None,
                 load_node=False, loads=(), stores=(), changes=None, post_changes=None,
                 is_instr=True, tag=None):
        self.text = text
        self.reads = frozenset(reads)
        self.writes = frozenset(writes)
        self.wb = frozenset(wb)
        self.lat = float(lat)
        self.lat_exec = float(lat if lat_exec is None else lat_exec)
        self.load_node = load_node
        self.loads = list(loads)
        self.stores = list(stores)
        self.changes = changes or {}
        self.post_changes = post_changes or {}
        self.is_instr = is_instr
        self.tag = tag


def is_flag(res):
    return isinstance(res, tuple) and res and res[0] == "flag"


def raw_edges(seq, flags, p_index_latency=1.0):
    """{(i, j): set of acceptable weights} - read-after-write with kill, i < j."""
    E = {}
    n = len(seq)
    for i in range(n):
        a = seq[i]
        for res in a.writes:
            if is_flag(res) and not flags:
                continue
            w = p_index_latency if res in a.wb else a.lat_exec
            for j in range(i + 1, n):
                b = seq[j]
                if res in b.reads:
                    E.setdefault((i, j), set()).add(float(w))
                if res in b.writes:
                    break
    return E


# ---------------------------------------------------------------------------------------
# store -> load through provably equal addresses (symbolic tracker)

def _apply(state, changes):
    """state: resource -> (origin_resource, const) or None (unknown)."""
    new = dict(state)
    for res, ch in changes.items():
        cur = state.get(res, (res, 0))
        if ch is None:
            new[res] = None
        elif ch[0] == "add":
            new[res] = None if cur is None else (cur[0], cur[1] + ch[1])
        elif ch[0] == "copy":
            src = state.get(ch[1], (ch[1], 0))
            new[res] = None if src is None else (src[0], src[1] + (ch[2] if len(ch) > 2 else 0))
    return new


def _addr(state, m):
    """(frozenset of (origin, scale)), const) or None if unknown.  The address is kept as a
    linear form so that base/index roles do not matter beyond their scale."""
    terms = []
    const = m.disp
    for reg, sc in ((m.base, 1), (m.index, m.scale)):
        if reg is None:
            continue
        st = state.get(reg, (reg, 0))
        if st is None:
            return None
        terms.append((st[0], sc))
        const += st[1] * sc
    return (tuple(terms), const)


def memdep_edges(seq):
    """Classify every (store i, load j>i) pair: 'required', 'forbidden' or 'unspecified'.

    required   both addresses resolve to the same (base origin, index origin, scale) and constant
    forbidden  they resolve and differ in constant or in registers/scale
    A later store to the textually same operand ends the search for that store."""
    out = {}
    n = len(seq)
    for i in range(n):
        a = seq[i]
        for st in a.stores:
            # state relative to the moment the store address was formed
            state = {}
            # changes of the store instruction itself that happen after its address is formed
            state = _apply(state, a.post_changes)
            # a pre-indexed store forms its address after the change: address uses new value,
            # which is the reference point -> nothing to add (the text carries the displacement)
            killed = False
            for j in range(i + 1, n):
                b = seq[j]
                state_for_addr = _apply(state, b.changes)
                for ld in b.loads:
                    s_addr = _addr({}, st)
                    l_addr = _addr(state_for_addr, ld)
                    if l_addr is None or s_addr is None:
                        # the value of an address register is unknown (untracked change).  If
                        # the load names the same registers as the store the statement is
                        # silent; if it goes through another register that is not an accounted
                        # copy of the store's register, the base/index registers differ
                        same_names = (ld.base == st.base and ld.index == st.index)
                        verdict = "unspecified" if (same_names or s_addr is None) else "forbidden"
                    else:
                        same_regs = s_addr[0] == l_addr[0]
                        if same_regs and s_addr[1] == l_addr[1]:
                            verdict = "required"
                        else:
                            verdict = "forbidden"
                    prev = out.get((i, j))
                    if prev is None or verdict == "required" or (verdict == "unspecified" and
                                                                   prev == "forbidden"):
                        out[(i, j)] = verdict
                if any(s.text == st.text for s in b.stores):
                    killed = True
                state = _apply(state_for_addr, b.post_changes)
                if killed:
                    break
    return out


# ---------------------------------------------------------------------------------------
# longest path / cycles on an explicit graph

def longest_chain(nodes, edges, exec_lat, full_lat=None, own_load=None):
    """nodes in topological (program) order; edges {(u, v): w}.  Chain length =
    sum of edge weights + exec latency of the last node.  Returns (L_exec, L_full) where L_full
    additionally allows the *full* latency of the last instruction when the chain enters it
    through a register (i.e. not through its own load node, own_load[v])."""
    own_load = own_load or {}
    order = list(nodes)
    pos = {v: k for k, v in enumerate(order)}
    preds = {v: [] for v in order}
    for (a, b), w in edges.items():
        if a in pos and b in pos and pos[a] < pos[b]:
            preds[b].append((a, w))
    best_in = {}
    best_reg = {}
    for v in order:
        best_in[v] = 0.0
        best_reg[v] = 0.0
        for a, w in preds[v]:
            best_in[v] = max(best_in[v], best_in[a] + w)
            if own_load.get(v) != a:
                best_reg[v] = max(best_reg[v], best_in[a] + w)
    le = max((best_in[v] + exec_lat.get(v, 0.0) for v in order), default=0.0)
    lf = le
    if full_lat is not None:
        lf = max([le] + [best_reg[v] + full_lat.get(v, 0.0) for v in order])
    return le, lf


def lcd_cycles(n, edges2):
    """edges2: {(i, j): w} over two concatenated iterations (0..2n-1), w a single weight.
    Returns set of (sorted member tuple, latency) of winding-number-1 cycles: a path from node r
    (first iteration) to node r + n; cycles that differ only in the root are the same."""
    adj = {}
    for (a, b), w in edges2.items():
        adj.setdefault(a, []).append((b, w))
    out = set()

    def dfs(cur, target, path, lat):
        if cur == target:
            members = tuple(sorted(((p % n), w) for p, w in path))
            out.add((members, round(lat, 6)))
            return
        for b, w in adj.get(cur, ()):
            if b <= target:
                dfs(b, target, path + [(cur, w)], lat + w)

    for r in range(n):
        dfs(r, r + n, [], 0.0)
    return out
