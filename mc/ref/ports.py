"""Reference for port-pressure feasibility (Hall's condition) and the exact fractional optimum.

A micro-op is (cycles, set_of_ports).  A pressure vector p (dict port -> cycles) is a feasible
fractional assignment of the micro-ops iff
  p >= 0, p is zero outside the union of the port sets, sum(p) = sum(cycles) and
  for every port subset S: sum_{q in S} p[q] >= sum of cycles of micro-ops whose ports lie in S
(Hall / max-flow min-cut for the bipartite transportation problem).
"""
import itertools


def norm_uops(uops):
    """[[cycles, ports], ...] with ports given as list or as a string of 1-char names."""
    out = []
    for c, ports in uops:
        out.append((float(c), frozenset(list(ports))))
    return out


def subsets(ports):
    ports = list(ports)
    for r in range(1, len(ports) + 1):
        for s in itertools.combinations(ports, r):
            yield frozenset(s)


def feasibility_deviation(pressure, uops, ports, hall_sets=None):
    """Largest violation (>0 means violated by that amount) and its description.

    pressure: list aligned with ports.  uops: normalised.  Returns (dev, what)."""
    worst, what = 0.0, "ok"
    p = dict(zip(ports, pressure))
    union = frozenset().union(*[u[1] for u in uops]) if uops else frozenset()
    total = sum(c for c, _ in uops)
    for q in ports:
        if -p[q] > worst:
            worst, what = -p[q], "negative pressure %.4f on port %s" % (p[q], q)
        if q not in union and abs(p[q]) > worst:
            worst, what = abs(p[q]), "pressure %.4f on port %s that no micro-op may use" % (p[q], q)
    d = abs(sum(pressure) - total)
    if d > worst:
        worst, what = d, "sum of pressure %.4f != total micro-op cycles %.4f" % (sum(pressure), total)
    for S in (hall_sets if hall_sets is not None else subsets(union)):
        conf = sum(c for c, pl in uops if pl <= S)
        have = sum(p[q] for q in S)
        if conf - have > worst:
            worst = conf - have
            what = "ports %s carry %.4f < %.4f cycles of micro-ops confined to them" % (
                sorted(S), have, conf)
    return worst, what


def exact_optimum(kernel_uops, ports):
    """max over port subsets S of (cycles confined to S)/|S| for the multiset of micro-ops."""
    tot = {}
    for uops in kernel_uops:
        for c, pl in uops:
            tot[pl] = tot.get(pl, 0.0) + c
    best = 0.0
    for S in subsets(ports):
        conf = sum(v for s, v in tot.items() if s <= S)
        best = max(best, conf / len(S))
    return best


def uniform(uops, ports):
    p = {q: 0.0 for q in ports}
    for c, pl in uops:
        for q in pl:
            p[q] += c / len(pl)
    return [p[q] for q in ports]
