"""Parser for OSACA's text report (column boundaries taken from the table's header line)."""
import re

ARCH_WARN = "WARNING: No micro-architecture was specified"
LEN_WARN = "WARNING: You are analyzing a large amount of instruction forms"
LCD_WARN = "WARNING: LCD analysis timed out"
MISSING_RE = re.compile(r"WARNING: The performance data for (\d+) instructions is missing")


class Report:
    pass


def _cell(s):
    s = s.strip()
    if s == "":
        return None
    try:
        return float(s)
    except ValueError:
        return s


def parse(text):
    r = Report()
    lines = text.split("\n")
    r.arch_warning = ARCH_WARN in text
    r.length_warning = LEN_WARN in text
    r.lcd_warning = LCD_WARN in text
    m = MISSING_RE.search(text)
    r.missing = int(m.group(1)) if m else None
    r.arch = None
    for l in lines[:6]:
        if l.startswith("Architecture:"):
            r.arch = l.split(":", 1)[1].strip()
    # --- combined view
    try:
        i0 = lines.index("Combined Analysis Report")
    except ValueError:
        raise ValueError("no combined view in report")
    hdr = lines[i0 + 3]
    sep_line = lines[i0 + 4]
    assert set(sep_line) == {"-"}, "unexpected table layout: %r" % sep_line
    # boundaries: every '|' or '-' in the header from col 5 on
    assert hdr[:5] == "     " and hdr[5] == "|", "unexpected header %r" % hdr
    bounds = [k for k, ch in enumerate(hdr) if ch in "|-" and k >= 5]
    # the last three boundaries delimit CP and LCD; the one before them is the duplicate '|'
    # closing the port part:  ...|  ST  ||  CP  | LCD  |
    cp_b = bounds[-3:]
    port_b = bounds[:-3]
    names = []
    for a, b in zip(port_b, port_b[1:]):
        names.append(hdr[a + 1:b].strip())
    assert hdr[cp_b[0] + 1:cp_b[1]].strip() == "CP" and hdr[cp_b[1] + 1:cp_b[2]].strip() == "LCD"
    r.ports = names
    r.rows = []
    k = i0 + 5
    while k < len(lines) and lines[k].strip() != "":
        l = lines[k]
        row = {"line_number": int(l[:4]), "cells": [], "raw": l, "raw_cells": []}
        for a, b in zip(port_b, port_b[1:]):
            row["cells"].append(_cell(l[a + 1:b]))
            row["raw_cells"].append(l[a + 1:b].strip())
        row["cp"] = _cell(l[cp_b[0] + 1:cp_b[1]])
        row["lcd"] = _cell(l[cp_b[1] + 1:cp_b[2]])
        rest = l[cp_b[2] + 1:]
        # " {flags} {text}": flags is a run of '*XP' or a single blank
        body = rest[1:]
        n = 0
        while n < len(body) and body[n] in "*XP":
            n += 1
        if n == 0:
            row["flags"] = ""
            row["text"] = body[2:]
        else:
            row["flags"] = body[:n]
            row["text"] = body[n + 1:]
        r.rows.append(row)
        k += 1
    # --- summary (absent when the missing-instruction warning is shown)
    r.summary = None
    k += 1
    if k < len(lines) and r.missing is None and lines[k].strip() != "":
        l = lines[k]
        cells, raw = [], []
        for a, b in zip(port_b, port_b[1:]):
            cells.append(_cell(l[a + 1:b]))
            raw.append(l[a + 1:b].strip())
        tail = l[port_b[-1] + 1:].split()
        r.summary = {"cells": cells, "raw_cells": raw, "cp": float(tail[0]),
                     "lcd": float(tail[1])}
    # --- LCD list
    r.lcd_list = []
    try:
        j0 = lines.index("Loop-Carried Dependencies Analysis Report")
        for l in lines[j0 + 2:]:
            if l.strip() == "":
                continue
            parts = l.split("|")
            ln = int(parts[0])
            lat = float(parts[1])
            members = [int(x) for x in re.findall(r"-?\d+", parts[-1])]
            r.lcd_list.append({"line_number": ln, "latency": lat, "members": members,
                               "text": "|".join(parts[2:-1])})
    except ValueError:
        pass
    return r
