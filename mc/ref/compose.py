"""Reference for memory-operand composition (C08): register form + load/store data.

Works on the *plain* model description (python dicts as written to the synthetic YAML)."""
from mc.ref import ports as RP


def shape_matches(isa, row, mem):
    """row: table row dict (base/index/offset/scale patterns); mem: dict(base, index, offset,
    scale) of the instruction's memory operand with base/index = register type or None,
    offset in {None, 'imd', 'id'} (immediate / symbolic displacement)"""
    def reg(p, k):
        if p == "*":
            return True
        if p is None:
            return k is None
        return k is not None and (p == k or (isa == "x86" and p == "gpr" and k == "gpr"))
    if not reg(row.get("base"), mem["base"]) or not reg(row.get("index"), mem["index"]):
        return False
    po = row.get("offset")
    if po != "*":
        if po is None and mem["offset"] is not None:
            return False
        if po == "imd" and mem["offset"] != "imd":
            return False
        if po == "id" and mem["offset"] != "id":
            return False
    ps = row.get("scale")
    if ps != "*":
        if ((ps or 1) == 1) != (mem["scale"] == 1):
            return False
    return True


def pick_load(isa, model, mem, reg_type):
    """-> micro-op list, or None if the statement does not determine the row"""
    rows = [r for r in model.get("load_throughput", []) if shape_matches(isa, r, mem)]
    if not rows:
        return model.get("load_throughput_default", [])
    typed = [r for r in rows if r.get("dst") == reg_type]
    if typed:
        return typed[0]["port_pressure"]
    if all(r.get("dst") is None for r in rows):
        return rows[0]["port_pressure"]
    return None  # rows for this shape exist, but none for this register type: not determined


def pick_store(isa, model, mem, reg_type):
    rows = [r for r in model.get("store_throughput", []) if shape_matches(isa, r, mem)]
    typed = [r for r in rows if r.get("src") == reg_type]
    if typed:
        return typed[0]["port_pressure"]
    if rows and any(r.get("src") is None for r in rows):
        return None  # untyped rows vs. default: not determined by the statement
    return model.get("store_throughput_default", [])


def compose(isa, model, regform, mem, reg_type, does_load, does_store):
    """expected dict(uops, pressure, latency, latency_wo_load, throughput) or None (unspecified)"""
    ports = model["ports"]
    uops = [list(u) for u in regform["port_pressure"]]
    pressure = RP.uniform(RP.norm_uops(uops), ports)
    data = [0.0] * len(ports)
    if does_load:
        lu = pick_load(isa, model, mem, reg_type)
        if lu is None:
            return None
        mult = (model.get("load_throughput_multiplier") or {}).get(reg_type, 1.0) \
            if "load_throughput_multiplier" in model else 1.0
        lp = RP.uniform(RP.norm_uops(lu), ports)
        data = [d + mult * x for d, x in zip(data, lp)]
        uops += [list(u) for u in lu]
    if does_store:
        su = pick_store(isa, model, mem, reg_type)
        if su is None:
            return None
        mult = (model.get("store_throughput_multiplier") or {}).get(reg_type, 1.0) \
            if "store_throughput_multiplier" in model else 1.0
        sp = RP.uniform(RP.norm_uops(su), ports)
        data = [d + mult * x for d, x in zip(data, sp)]
        uops += [list(u) for u in su]
    pressure = [a + b for a, b in zip(pressure, data)]
    lat = float(regform["latency"])
    if does_load:
        lat += float((model.get("load_latency") or {}).get(reg_type) or 0)
    return {
        "uops": uops,
        "pressure": pressure,
        "latency": lat,
        "latency_wo_load": float(regform["latency"]),
        "throughput": max(max(data), float(regform["throughput"])),
    }
