"""Instruction ASTs for both ISAs, renderers with layout variants and the expected parse result.

An operand AST is a dict with key 't' (type).  render_op() gives its text, expect_op() the plain
description the parsed operand must agree with, observed_op() flattens a parsed operand object
into the same plain description (reading attributes only)."""
import itertools

# ------------------------------------------------------------------------------------------
# x86 AT&T

X86_GPR = {
    "A": ["rax", "eax", "ax", "al", "ah"], "B": ["rbx", "ebx", "bx", "bl", "bh"],
    "C": ["rcx", "ecx", "cx", "cl", "ch"], "D": ["rdx", "edx", "dx", "dl", "dh"],
    "SP": ["rsp", "esp", "sp", "spl"], "BP": ["rbp", "ebp", "bp", "bpl"],
    "SI": ["rsi", "esi", "si", "sil"], "DI": ["rdi", "edi", "di", "dil"],
}


def x86_reg_names(full):
    names = [n for fam in X86_GPR.values() for n in fam]
    for i in range(8, 16):
        names += ["r%d%s" % (i, s) for s in ("", "d", "w", "b")]
    nums = range(32) if full else (0, 15, 31)
    for p in ("xmm", "ymm", "zmm"):
        names += ["%s%d" % (p, i) for i in nums]
    return names


def _num(v, hexa):
    if hexa:
        return ("-" if v < 0 else "") + hex(abs(v))
    return str(v)


def x86_render(op):
    t = op["t"]
    if t == "reg":
        return "%" + op["name"]
    if t == "imm":
        return "$" + _num(op["v"], op.get("hex", False))
    if t == "label":
        return op["name"]
    if t == "mem":
        s = "" if op.get("disp") is None else _num(op["disp"], op.get("hex", False))
        b, i, sc = op.get("base"), op.get("index"), op.get("scale")
        if b is None and i is None:
            return s
        s += "("
        if b:
            s += "%" + b
        if i:
            s += ",%" + i
            if sc is not None:
                s += "," + str(sc)
        return s + ")"
    raise ValueError(op)


def x86_expect(op):
    t = op["t"]
    if t == "reg":
        return {"t": "reg", "name": op["name"]}
    if t == "imm":
        return {"t": "imm", "v": op["v"]}
    if t == "label":
        return {"t": "label", "name": op["name"]}
    if t == "mem":
        return {"t": "mem", "disp": op.get("disp"), "base": op.get("base"),
                "index": op.get("index"),
                "scale": op["scale"] if (op.get("index") and op.get("scale") is not None) else 1}


# ------------------------------------------------------------------------------------------
# AArch64

def a64_render(op):
    t = op["t"]
    if t == "reg":
        s = op["prefix"] + str(op["num"]) if op.get("num") is not None else op["alias"]
        if op.get("shape"):
            s += "." + (str(op["lanes"]) if op.get("lanes") else "") + op["shape"]
        if op.get("index") is not None:
            s += "[%d]" % op["index"]
        if op.get("pred"):
            s += "/" + op["pred"]
        return s
    if t == "reglist":
        inner = (", " if op.get("style", ",") == "," else op["style"]).join(
            a64_render(m) for m in op["members"])
        if op.get("range"):
            inner = a64_render(op["members"][0]) + op.get("style", "-") + \
                a64_render(op["members"][-1])
        s = "{" + inner + "}"
        if op.get("index") is not None:
            s += "[%d]" % op["index"]
        return s
    if t == "imm":
        h = "#" if op.get("hash", True) else ""
        if "f" in op:
            return h + op["f"]
        return h + _num(op["v"], op.get("hex", False))
    if t == "cond":
        return op["cc"]
    if t == "label":
        return op["name"]
    if t == "mem":
        s = "[" + op["base"]
        if op.get("index"):
            s += ", " + op["index"]
            if op.get("ext"):
                s += ", " + op["ext"]
                if op.get("amount") is not None:
                    s += " #%d" % op["amount"]
        elif op.get("disp") is not None and op.get("mode") != "post":
            s += ", #" + _num(op["disp"], op.get("hex", False))
        s += "]"
        if op.get("mode") == "pre":
            s += "!"
        if op.get("mode") == "post":
            s += ", #" + _num(op["disp"], op.get("hex", False))
        return s
    raise ValueError(op)


def _a64_reg_expect(op):
    if op.get("alias"):
        a = op["alias"].lower()
        if a in ("sp", "wsp"):
            return {"t": "reg", "prefix": "x", "name": "sp"}
        return {"t": "reg", "prefix": a[0], "name": "zr"}
    e = {"t": "reg", "prefix": op["prefix"].lower(), "name": str(op["num"])}
    if op.get("shape"):
        e["shape"] = op["shape"].lower()
        if op.get("lanes"):
            e["lanes"] = str(op["lanes"])
    if op.get("index") is not None:
        e["index"] = op["index"]
    if op.get("pred"):
        e["pred"] = op["pred"].lower()
    return e


def a64_expect(op):
    """-> list of expected plain operands (register lists expand to their members)"""
    t = op["t"]
    if t == "reg":
        return [_a64_reg_expect(op)]
    if t == "reglist":
        members = op["members"]
        if op.get("range"):
            first, last = members[0], members[-1]
            members = [dict(first, num=n) for n in range(first["num"], last["num"] + 1)]
        out = []
        for m in members:
            e = _a64_reg_expect(m)
            if op.get("index") is not None:
                e["index"] = op["index"]
            out.append(e)
        return out
    if t == "imm":
        if "f" in op:
            return [{"t": "imm", "fv": op["fval"], "ftype": op["ftype"]}]
        return [{"t": "imm", "v": op["v"]}]
    if t == "cond":
        return [{"t": "cond", "cc": op["cc"].upper()}]
    if t == "label":
        return [{"t": "label", "name": op["name"]}]
    if t == "mem":
        b = op["base"].lower()
        base = {"prefix": "x", "name": "sp"} if b == "sp" else {"prefix": b[0], "name": b[1:]}
        e = {"t": "mem", "base": base, "disp": None, "index": None, "scale": 1,
             "pre": False, "post": None}
        if op.get("index"):
            i = op["index"].lower()
            e["index"] = {"prefix": i[0], "name": i[1:]}
            if op.get("ext") and op.get("amount") is not None:
                e["scale"] = 2 ** op["amount"]
        elif op.get("mode") == "post":
            e["post"] = op["disp"]
        elif op.get("disp") is not None:
            e["disp"] = op["disp"]
        if op.get("mode") == "pre":
            e["pre"] = True
        return [e]


# ------------------------------------------------------------------------------------------
# parsed operand object -> plain description

def _fval(v):
    if isinstance(v, dict):
        m = float(v["mantissa"])
        ex = int(v.get("exponent", "0"))
        if v.get("e_sign") == "-":
            ex = -ex
        return m * (10 ** ex)
    return float(v)


def observed_op(isa, o):
    cn = type(o).__name__
    if cn == "RegisterOperand":
        if isa == "x86":
            return {"t": "reg", "name": o.name}
        e = {"t": "reg", "prefix": o.prefix, "name": str(o.name)}
        if o.shape is not None:
            e["shape"] = o.shape
        if o.lanes is not None:
            e["lanes"] = str(o.lanes)
        if o.index is not None:
            e["index"] = int(o.index)
        if o.predication is not None:
            e["pred"] = o.predication
        return e
    if cn == "ImmediateOperand":
        if o.imd_type in ("float", "double"):
            return {"t": "imm", "fv": _fval(o.value), "ftype": o.imd_type}
        return {"t": "imm", "v": o.value}
    if cn == "IdentifierOperand":
        return {"t": "label", "name": o.name}
    if cn == "ConditionOperand":
        return {"t": "cond", "cc": o.ccode}
    if cn == "MemoryOperand":
        def reg(r):
            if r is None:
                return None
            if isa == "x86":
                return r.name
            return {"prefix": r.prefix, "name": str(r.name)}
        disp = None
        if o.offset is not None:
            disp = o.offset.value if type(o.offset).__name__ == "ImmediateOperand" else \
                ("id", getattr(o.offset, "name", None))
        e = {"t": "mem", "disp": disp, "base": reg(o.base), "index": reg(o.index),
             "scale": o.scale}
        if isa == "aarch64":
            e["pre"] = bool(o.pre_indexed)
            post = o.post_indexed
            e["post"] = post["value"] if isinstance(post, dict) and "value" in post else \
                (None if not post else post)
        return e
    return {"t": "other", "repr": repr(o)[:100]}


# ------------------------------------------------------------------------------------------
# layouts

def layouts(isa, thorough):
    lead = ["", "\t", "    "]
    after = [" ", "\t", "   "]
    sep = [",", ", ", " ,", " , "]
    trail = ["", "  "]
    cm = ["# c1 c2", "// c1"] if isa == "x86" else ["// c1 c2"]
    comment = [None] + [(c, sp) for c in cm for sp in (" ", "")]
    out = []
    for l, a, s, t, c in itertools.product(lead, after, sep, trail, comment):
        out.append((l, a, s, t, c))
    if not thorough:
        # a covering subset: every value of every dimension, every pair with the separator
        keep = []
        for k, lay in enumerate(out):
            if k % 7 == 0 or lay[:2] == ("", " ") and lay[3] == "":
                keep.append(lay)
        out = keep
    return out


def render_line(isa, mnemonic, optexts, layout):
    l, a, s, t, c = layout
    line = l + mnemonic
    if optexts:
        line += a + s.join(optexts)
    line += t
    ctext = None
    if c is not None:
        cm, sp = c
        if sp == "" and (line.endswith("f") or not optexts):
            sp = " "
        line += sp + cm
        ctext = " ".join(cm.split()[1:]) if cm.split()[0] in ("#", "//") else None
        # the comment body as the parsers report it: words joined by one blank
        body = cm[1:] if cm.startswith("#") else cm[2:]
        ctext = " ".join(body.split())
    return line, ctext
