"""Architectural register partition of x86-64 and AArch64 as explicit tables.

class_of(isa, name) returns a hashable class id; two register names overlap iff their
class ids are equal.  Written from the architecture manuals, not from OSACA's tables.
"""

X86_LEGACY = {
    "A": ["rax", "eax", "ax", "al", "ah"],
    "B": ["rbx", "ebx", "bx", "bl", "bh"],
    "C": ["rcx", "ecx", "cx", "cl", "ch"],
    "D": ["rdx", "edx", "dx", "dl", "dh"],
    "SP": ["rsp", "esp", "sp", "spl"],
    "BP": ["rbp", "ebp", "bp", "bpl"],
    "SI": ["rsi", "esi", "si", "sil"],
    "DI": ["rdi", "edi", "di", "dil"],
}


def x86_table():
    """name (lower case) -> class id"""
    t = {}
    for fam, names in X86_LEGACY.items():
        for n in names:
            t[n] = ("gpr", fam)
    for i in range(8, 16):
        for suf in ("", "d", "w", "b"):
            t["r%d%s" % (i, suf)] = ("gpr", "R%d" % i)
    for i in range(32):
        for p in ("xmm", "ymm", "zmm"):
            t["%s%d" % (p, i)] = ("vec", i)
    for i in range(8):
        t["mm%d" % i] = ("mmx", i)
        t["k%d" % i] = ("mask", i)
    return t


def a64_table():
    """(prefix, name) lower case -> class id, as written in assembly: x3, w3, d5, p2, sp, ..."""
    t = {}
    for i in range(32):
        for p in "wx":
            t["%s%d" % (p, i)] = ("gpr", i)
        for p in "bhsdqvz":
            t["%s%d" % (p, i)] = ("vec", i)
        t["p%d" % i] = ("pred", i)
    t["sp"] = ("sp",)
    t["wsp"] = ("sp",)
    t["xzr"] = ("zr",)
    t["wzr"] = ("zr",)
    return t


X86 = x86_table()
A64 = a64_table()


def class_of(isa, name):
    name = name.lower()
    return (X86 if isa == "x86" else A64).get(name)
