#!/usr/bin/env python3
"""Writes MANIFEST.json from the table below (kept in one place so it stays valid)."""
import json
import os

HERE = os.path.dirname(os.path.abspath(__file__))
PY = "/venv/bin/python"

# id -> (engine, category, technique, text, note, design_ref)
CHECKS = {}

def add(pid, engine, technique, text, note, ref, category="model_checking"):
    CHECKS[pid] = dict(engine=engine, technique=technique, text=text, note=note, ref=ref,
                       category=category)

add("C12", "E1",
    "exhaustive enumeration of all ordered register-name pairs against a partition table",
    "Complete enumeration: every ordered pair of register operands of both ISAs (all names, "
    "lower/upper/mixed case, as plain operand and as memory base/index, each produced by the real "
    "parser) is compared with an explicit architectural partition; the space is finite and "
    "covered completely in both tiers. Part (b): at graph level, a producer writing two registers "
    "and a consumer reading one, all triples over ~20 names per ISA: edge iff overlap.",
    "Trusted: the partition table mc/ref/regs.py (written from the architecture manuals).",
    "DESIGN.md §4 C12")

add("C01", "E1",
    "bounded-exhaustive kernel enumeration vs. Hall-condition reference model",
    "All kernels up to length 2 (thorough: 3) over every instruction form of synthetic 3-port "
    "models (three port-naming schemes, 1-3 micro-ops with equal/nested/overlapping/disjoint port "
    "sets, alternative assignments, zero-throughput and non-instruction lines, load/store "
    "multipliers) are run through the real add_semantics/assign_optimal_throughput/Frontend code at "
    "the three stages uniform / optimised once / optimised twice and every instruction is compared "
    "with the exact feasibility criterion (sign, support, sum, Hall's condition for every port subset) "
    "and the totals with the column sums. Part (b): on shipped models (quick 5, thorough all 17) one "
    "instruction is synthesised per distinct micro-op list of the plain YAML (thorough: per entry) "
    "and all single-line kernels and all ordered pairs over <=40 of them are checked the same way; "
    "memory-composed real instructions (register form + load/store rows) are part of the alphabet.",
    "Trusted: mc/ref/ports.py (Hall criterion). Unbounded quantifier decided on the stated finite "
    "family only; D1 (second pass, multi-micro-op forms) is a listed known finding.",
    "DESIGN.md §4 C01")
add("C02", "E1",
    "complete enumeration of the property's 5355-kernel family vs. exact fractional optimum",
    "The 5355-kernel family named by the property is enumerated completely in both tiers and the "
    "bottleneck after the CLI's two balancing passes is compared with the exact optimum "
    "max_S confined(S)/|S|; clauses (1) never worse than uniform and (2) never below the optimum by "
    "more than one step are additionally decided for all kernels <=2 of the C01 families and for "
    "all kernels <=2 over <=40 real instructions per shipped model (quick 6 models, thorough all) "
    "incl. memory-composed ones and quads of two composed + two plain instructions.",
    "Trusted: exact optimum by Hall/max-flow duality (mc/ref/ports.py). The property's 'random "
    "exploration' clause is replaced by enumerated families (sampling is a different technique).",
    "DESIGN.md §4 C02")

add("C03", "E1",
    "bounded-exhaustive enumeration of instruction sequences vs. reference RAW-with-kill relation",
    "Every kernel of length 1-2 (and length 3 with a restricted middle instruction) over all "
    "instruction instances of synthetic ISA databases (all 9 two-operand role vectors, three-operand "
    "vectors, default rule, zero idiom, hidden flag writer/reader/RMW, memory source/destination, "
    "composed load incl. read-modify-write, AArch64 pre/post-index with and without p_index_latency, "
    "AT&T/.cond suffix fall-backs) x register pools with two aliasing widths and one unrelated "
    "register is analysed by the real add_semantics + create_DG and the edge set and every weight are "
    "compared with the reference relation; flags on and off. Part (b): curated real vocabulary on "
    "the shipped ISA databases. Part (c): role-probing audit of both shipped ISA databases (every "
    "mnemonic with an entry, kernel 'writer of r ; X ; reader of r' for every register class and "
    "flag X touches) against roles written down from the vendor manuals.",
    "Trusted: mc/ref/dg.py + mc/ref/regs.py; the role tables in mc/checks/realvocab.py and "
    "mc/checks/isa_audit.py. Parsed lines are cached per distinct text (parser is "
    "covered by C09/C10). Depth 3 only; other register pools/latency values not covered.",
    "DESIGN.md §4 C03")
add("C05", "E1",
    "bounded-exhaustive kernel enumeration vs. independent winding-number-1 cycle enumeration",
    "All kernels up to length 3 (thorough: 4 on a thinned alphabet) over an alphabet built to create "
    "self-loops, shared nodes, ties, zero-latency members, flag and write-back cycles are analysed by "
    "the real KernelDG; the reported LCD set (members, edge latencies, totals, keys), the summary "
    "figure and the LCD column of the text report are compared with a DFS enumeration of "
    "winding-number-1 cycles over the reference relation of two concatenated iterations; also "
    "kernels located beyond file line 1000.",
    "Trusted: mc/ref/dg.py (register relation and store->load relation), mc/ref/report.py. Edges "
    "with more than one admissible weight (data and write-back register, register and memory) are "
    "enumerated: the report has to agree with one consistent choice.",
    "DESIGN.md §4 C05")

add("C04", "E1",
    "bounded-exhaustive kernel enumeration vs. independent longest-path DP on the exported graph",
    "All kernels up to length 3 (thorough: 4) over the C05 alphabet (zero-latency instruction, ties, "
    "chains starting at a separately modelled load, chains ending in the most expensive instruction, "
    "no dependency) on synthetic models and every shipped example/test kernel on shipped models: the "
    "reported critical path must lie in [L_exec, L_full] of an independent longest-chain DP over the "
    "implementation's own graph, be >= every single latency, and the marked lines must form a chain "
    "of graph edges whose length equals the reported total. Also all kernels up to length 3 over "
    "real instructions whose memory forms are composed from the register form on five shipped "
    "models: an instruction with a load node of its own hands its result on after its execution "
    "latency (load stage counted once).",
    "Trusted: mc/ref/dg.py longest_chain. The interval accepts both readings of the statement "
    "for the last instruction's load stage. Graph correctness itself belongs to C03.",
    "DESIGN.md §4 C04")
add("C14", "E1",
    "exhaustive enumeration of all rotation offsets, differential oracle",
    "Every rotation offset of every generated kernel of length 2-3 (thorough: 4) over the C05 "
    "alphabet, of every generated kernel of length 2-4 over 18 real instructions per ISA on the "
    "shipped ISA databases (implicit operands, stack, write-back, store/load pairs) and of every "
    "shipped example/test kernel body (quick: bodies <= 45 lines on one "
    "model per ISA; thorough: all bodies on all shipped models, flags on/off) is analysed by the real "
    "code and the set of cycles (members mapped to original positions, latency) and the LCD "
    "figure are compared with rotation 0.",
    "Differential oracle only; the reference for the cycles themselves is C05.",
    "DESIGN.md §4 C14")

add("C06", "E1",
    "bounded-exhaustive enumeration of store/bump/load sequences vs. symbolic address tracker",
    "store x [0..2 pointer bumps] x load (x second store) over every addressing shape "
    "(base, base+disp, base+index*scale, AArch64 pre-/post-index), displacement pairs, bumps by "
    "add/sub immediate, inc/dec, register copy (incl. copy chains and copy-with-offset), pre-/post-"
    "indexed accesses in between, read-modify-write stores and one untracked change, on shipped "
    "models with the shipped ISA databases (quick: zen1, tx2; thorough: all). Every instruction "
    "pair is classified required / forbidden / unspecified by a reference tracker and compared with "
    "the edges and weights of the real graph.",
    "Trusted: mc/ref/dg.py tracker. Untracked register changes are unspecified (counted). D20 "
    "(pre/post-indexed store whose base is overwritten before the load) is a listed known finding.",
    "DESIGN.md §4 C06")

add("C07", "E1",
    "exhaustive pattern x operand-kind matrix and complete sweep of shipped entries vs. reference matcher",
    "(a) synthetic models: every (entry operand pattern, instruction operand) pair for arity 1 and "
    "every pair of pairs for arity 2 over all operand kinds and wildcards of both ISAs through "
    "MachineModel.get_instruction; duplicates, shadowing, alias lists, operand counts, mnemonic case "
    "and AT&T / '.cond' suffix fall-backs through ArchSemantics. (b) every entry of shipped model "
    "files and both ISA databases (all files in both tiers): the instruction "
    "synthesised from the entry's own pattern must resolve to the first entry in file order that the "
    "reference accepts, a pattern field outside its documented domain (entry unreachable) is "
    "reported, and ~8 near-miss instructions per operand must not resolve to that entry (quick: "
    "zen1, n1, tx2, isa/*; thorough: all).",
    "Trusted: mc/ref/match.py (kinds, match relation, field domains, synthesiser). Kinds the "
    "statement does not define (mask/segment registers, shapeless vector registers) are excluded "
    "and counted.",
    "DESIGN.md §4 C07")

add("C15", "E1",
    "complete enumeration of all shipped entries (well-formedness + costing of one synthesised instruction each)",
    "Every entry of every non-empty shipped model file and of both ISA databases is read as plain "
    "YAML and checked field by field (micro-op lists and alternatives, ports within the port list, "
    "throughput/latency, operand-pattern and table-row fields within their documented domains, "
    "load/store tables and defaults); one instruction synthesised from each "
    "entry's own pattern is costed through add_semantics, both balancing passes and KernelDG "
    "(quick: 6 small models + ISA databases; thorough: all ~12.5k entries) and must not raise; "
    "--db-check counts of every model are compared with counts from the plain file. The space is "
    "finite and covered completely in the thorough tier.",
    "Trusted: plain-YAML reading by ruamel (safe loader), synthesiser mc/ref/match.py.",
    "DESIGN.md §4 C15")

add("C08", "E1",
    "exhaustive enumeration of instruction x addressing shape x role on synthetic models vs. composition reference",
    "Synthetic models of both ISAs (register forms with 1-2 micro-ops, load/store tables per "
    "addressing shape and register type, defaults, with/without multipliers, per-type load latency) "
    "x instructions with the memory operand in every position and role (load, store, read-modify-"
    "write through ISA entries), with/without mnemonic suffix (incl. stems ending in a suffix letter), "
    "unknown mnemonic, own memory entry; all kernels of length 1-2 (thorough 3) so every instruction "
    "follows every other; micro-ops, pressure, latency, latency without load, throughput and the "
    "unknown flag are compared with mc/ref/compose.py and the model tables are compared before/after.",
    "Trusted: mc/ref/compose.py. 'Rows for the shape but none for the register type' is unspecified "
    "(counted). Shipped-model vocabulary part not built yet.",
    "DESIGN.md §4 C08")

add("C09", "E1",
    "bounded-exhaustive rendering of instruction ASTs x layouts, field-by-field parse-back comparison",
    "Instruction ASTs (every GPR family and width, xmm/ymm/zmm 0/15/31 (thorough 0-31), immediates "
    "incl. negative and 64-bit decimal/hex, labels incl. register-like names, all base/index/"
    "displacement combinations x scales x displacement spellings) are rendered with layout variants "
    "(leading blanks/tab, spacing after the mnemonic, 4 separator spacings, trailing blanks, trailing "
    "'#'/'//' comment with and without a separating blank) and parsed by the real parser; arity 0-1 "
    "complete, arity 2 all ordered pairs of a reduced pool, arity 3-4 covering family; plus all 2800 "
    "files of <= 4 lines over 10 line kinds (line numbers, verbatim text, exactly one classification).",
    "Trusted: mc/ref/asm.py (AT&T operand grammar as rendered). D7 (displacement-only memory "
    "operand) is a listed known finding. The empty operand '()' is outside the domain.",
    "DESIGN.md §4 C09/C10")
add("C10", "E1",
    "bounded-exhaustive rendering of instruction ASTs x layouts, field-by-field parse-back comparison",
    "Same machinery as C09 for AArch64: scalar registers of every prefix, vector registers with "
    "lanes/shape/element index, SVE and predicate registers with predication/shape, sp/zr aliases, "
    "register lists and ranges with and without index (expanded to members), immediates with/without "
    "'#' in decimal, hex, negative, floating point with/without exponent, all condition codes, labels "
    "incl. register-like and condition-like names, memory with base (incl. sp), immediate offset, "
    "register index with lsl/sxtw/uxtw #n (scale 2^n), pre- and post-index; memory operand last; "
    "mnemonics with '.cond' suffix; files over 10 line kinds.",
    "Trusted: mc/ref/asm.py. D24 (condition code followed by a blank parsed as label) is a listed "
    "known finding.",
    "DESIGN.md §4 C09/C10")

add("C11", "E1",
    "bounded-exhaustive enumeration of marked files, --lines strings and file variants; reference slice + differential oracle",
    "(a) all files prologue (<= 2 decoy chunks) + start marker + body + end marker + epilogue over "
    "8 decoys (genuine bytes after a mov to another register / of another value, marker mov + non-"
    ".byte directive, truncated byte sequence, marker mov + instruction, comment, label) x 7 marker "
    "styles (bytes on one/several lines, odd spacing, comment markers, only start, only end, none) x "
    "3 bodies x 2 ISAs, reduce_to_section compared with the constructed slice; (b) every --lines "
    "string of <= 3 items over line numbers {1..3 (thorough 1..5), 9, 10, 11, 100} against a reference set; (c) marked / "
    "--lines (incl. descending and overlapping pieces) / extracted-only / noise-line variants (comment, "
    "label, directive, blank at every position, and 50-60 noise lines lifting the kernel over the 50-line threshold of the multi-process search) through osaca.run give identical per-instruction and "
    "summary numbers (quick: zen1, n1; thorough: every shipped model).",
    "Trusted: the file constructors in mc/checks/c11.py and the report parser mc/ref/report.py.",
    "DESIGN.md §4 C11")

add("C13", "E1",
    "exhaustive enumeration of the finite product corpus x models x options; report parsed back and compared with the machine-readable output",
    "(kernel corpus: shipped examples and test kernels + generated kernels with unknown mnemonics, "
    "entries lacking only throughput, zero-pressure and zero-latency instructions, no/several LCDs, "
    "port sums >= 10 and >= 100, 100 and 101 unmarked lines) x (models; quick: 2 per ISA + the ISA "
    "default without --arch; thorough: all) x {--fixed, optimal} x {--ignore-unknown or not} is "
    "enumerated completely; every run goes through osaca.run with --yaml-out, the text table is parsed "
    "back by column position and every port/CP/LCD cell, the summary row, X marks, the missing-data "
    "warning and its count, the arch and length warnings are compared with the YAML output; the LCD "
    "list and the LCD column with an independent KernelDG run.",
    "Trusted: mc/ref/report.py (layout of the text report). Cells are compared at the precision the "
    "text shows.",
    "DESIGN.md §4 C13")

add("C20", "E1",
    "exhaustive enumeration of operand codes, measurement grid and asmbench block structures vs. reference decoder/snapper",
    "Benchmark files are generated for every documented operand code of both ISAs (all memory code "
    "subsets) at arity 1-2 and a covering family at arity 3, for mnemonics new to and present in a "
    "synthetic target model in both cases, for measurements on a grid around every snapping point "
    "(1/n x {0.90 ... 1.10}, n = 1..10; k x the same, k in {1, 2, 4, 12}; far-off values), for ibench "
    "TP/LT lines in both orders and alone, and for all asmbench files of <= 3 blocks over "
    "{well-formed, blank line missing, extra line, truncated}; each goes through the real "
    "import_benchmark_output and the emitted YAML is parsed back and compared with a reference "
    "decoder and snapper.",
    "Trusted: reference decoder/snapper in mc/checks/c20.py (from README.rst). Measurements exactly on "
    "a 5 % boundary are excluded. D13 (form with an existing mnemonic of equal arity is lost, x86) is "
    "a listed known finding.",
    "DESIGN.md §4 C20")

add("C16", "E2",
    "stateless exploration of all schedules of the real multi-process LCD search under a virtual process/manager/clock world",
    "The real check_for_loopcarried_dep runs with module-level Process, Manager, cpu_count, time and "
    "os replaced by a virtual world in which every worker is a thread that hands the baton back before "
    "each shared-list extension; the explorer enumerates every interleaving of worker steps, "
    "completion orders and poller wake-ups by replaying choice prefixes (complete for 1-3 workers, "
    "deviation bound 1-2 for 5-16 workers), for kernels with 4-5 cycles incl. latency ties and a root in "
    "the last line; in every schedule the result (keys, order, members, latencies) and the report must "
    "equal the single-process result. Replays are deterministic (replay divergence is a hard error). "
    "Bound to the real system by real-multiprocessing conformance runs (1-16 workers, also with the "
    "process pinned to two CPUs) and a supplementary "
    "hash-seed sweep of CLI runs.",
    "Assumes a killed/running worker's list extension is atomic (manager executes one request at a "
    "time). Real OS scheduling is not owned; conformance runs are few and not called exhaustive.",
    "DESIGN.md §3.2, §4 C16", category="model_checking")
add("C19", "E2",
    "stateless exploration of schedules x poll wake-ups x kill points (virtual time) and of clock-jump points",
    "Same virtual world as C16 with timeouts {0, 0.2, 0.4 virtual s, 50, -1}: every schedule of worker "
    "steps, poller wake-ups and kill points (incl. 'pending extension already processed') is "
    "enumerated (complete for 2 workers, deviation bound 2-4 for 3); the single-process search is "
    "explored with the clock jumping past the timeout at the k-th query for every k. Oracle per "
    "schedule: reported cycles are a subset of the untimed result with equal latencies, flag and "
    "report warning iff the search was cut short, virtual elapsed time <= timeout + one poll "
    "interval, every worker dead and joined, port pressure and critical path unchanged. Two "
    "observed real-time runs (17-line Fibonacci-dense kernel below and above the 50-line threshold).",
    "Virtual time decides the logic; real time is only observed with generous margins. Kill atomicity "
    "as in C16.",
    "DESIGN.md §3.2, §4 C19", category="model_checking")

add("C17", "E3",
    "crash-point enumeration of the cache write, BFS over cache histories with canonical states, schedule exploration of racing cold starts",
    "(1) For the cache file of a small synthetic model every byte prefix (quick: a dense subset of "
    "~600 offsets), zero-filled holes, flipped bytes, a non-dict pickle, another internal_version and "
    "a left-over temporary file are materialised in the data directory and in the home cache "
    "(os.access shimmed) and two later runs must succeed with the cache-free result and leave a "
    "readable cache. (2) Breadth-first search over histories of {run, run in fresh process state, "
    "edit content A/B, delete caches, data dir read-only/writable, tear caches, plant other-version "
    "caches} with canonical states (content, access answer, state of every cache file, in-process "
    "cache size); every run must return the reference result of the current content. (3) All "
    "schedules (preemption-bounded) of 2-3 processes cold-starting on one directory under a "
    "cooperative scheduler with points at exists/open/truncate/write chunk/close/replace of an "
    "in-memory cache store; every process must get the reference data and the cache must end "
    "complete. (4) Pickles lying next to shipped model files vs. a fresh parse.",
    "Torn states are byte prefixes and zero-filled holes; other garbage only by classes. The race "
    "store serialises file operations at the shim's points. Real file systems/OS scheduling are not owned.",
    "DESIGN.md §3.3, §4 C17", category="model_checking")

add("C18", "E3",
    "breadth-first search over analysis histories with process-state digests, differential oracle against fresh processes",
    "BFS over sequences of analyses (alphabet of 8 covering both ISAs, several models, --fixed, -f, "
    "--ignore-unknown, read-modify-write and unknown instructions, no --arch) to depth 2 (thorough 3); "
    "each history runs in a process forked from a pristine parent, at two driver levels: the CLI "
    "entry point per analysis and reused MachineModel/ArchSemantics objects per architecture (where "
    "in-place mutation of shared model data is not masked by re-reading the cache). States are "
    "digests of the process-global state (in-process model cache, mutable default arguments, parser "
    "singletons, lru_cache, data of reused models); histories are expanded only from new states. Every "
    "report is compared with the report of the same analysis in a fresh process (subprocess CLI run / "
    "single-analysis history).",
    "Differential oracle, no hand-written expectation. Depth 2-3 over the stated alphabet only.",
    "DESIGN.md §3.3, §4 C18", category="model_checking")

NOT_YET = {}

def main():
    props = [json.loads(l) for l in open(os.path.join(HERE, "properties.jsonl"))]
    checks = []
    na = []
    for p in props:
        pid = p["id"]
        if pid in CHECKS:
            c = CHECKS[pid]
            checks.append({
                "property_id": pid,
                "quick_cmd": "%s run_check.py %s --tier quick" % (PY, pid),
                "thorough_cmd": "%s run_check.py %s --tier thorough" % (PY, pid),
                "evidence_file": "/verif/evidence/%s.json" % pid,
                "replay_cmd_template": "%s run_check.py %s --replay {path}" % (PY, pid),
                "engine": c["engine"],
                "level_claimed": {"category": c["category"], "text": c["text"],
                                  "design_ref": c["ref"]},
                "level_note": c["note"],
                "technique": c["technique"],
            })
        else:
            na.append({"property_id": pid,
                       "reason": NOT_YET.get(pid, "check not built yet (work in progress; the "
                                                  "design in DESIGN.md §4 applies)")})
    man = {
        "version": 1,
        "setup_cmd": "%s setup_check.py" % PY,
        "hooks": {
            "guard": "OSACA_VERIF",
            "enable": "no source hooks: the checks drive the unmodified code through module "
                      "attributes (kernel_dg.Process/Manager/cpu_count/time/os, hw_model.Path/pickle/os) "
                      "and a scratch HOME; nothing has to be enabled",
            "baseline_off_cmd": "cd /repo && /venv/bin/python -m pytest -ra -q -p no:cacheprovider "
                                "--timeout=900 --continue-on-collection-errors",
            "source_commits": [],
            "add_only": True,
        },
        "engines": [
            {"name": "E1", "path": "mc/core.py, mc/checks/", "serves_properties":
                sorted(k for k, v in CHECKS.items() if v["engine"] == "E1"),
             "kind_free_text": "bounded-exhaustive input/sequence enumeration through the real code "
                               "against Python reference models, sharded over 16 processes"},
            {"name": "E2", "path": "mc/sched.py, mc/vproc.py", "serves_properties":
                sorted(k for k, v in CHECKS.items() if v["engine"] == "E2"),
             "kind_free_text": "stateless schedule explorer (virtual processes, clock, kill points) "
                               "on the real LCD search and cache code"},
            {"name": "E3", "path": "mc/history.py, mc/vfs.py", "serves_properties":
                sorted(k for k, v in CHECKS.items() if v["engine"] == "E3"),
             "kind_free_text": "BFS over operation histories with canonical state digests; crash-point "
                               "enumeration of the cache write"},
        ],
        "checks": checks,
        "not_applicable": na,
        "notes": "All checks explore the implementation itself (no separate TLA+/Promela model); "
                 "every explored trace is an implementation trace. See DESIGN.md.",
    }
    with open(os.path.join(HERE, "MANIFEST.json"), "w") as f:
        json.dump(man, f, indent=1)
    print("MANIFEST.json: %d checks, %d not_applicable" % (len(checks), len(na)))

if __name__ == "__main__":
    main()
