import sys
from copy import deepcopy
from operator import itemgetter
from osaca.semantics import ArchSemantics
class FixedSem(ArchSemantics):
    def assign_optimal_throughput(self, kernel, start=0):
        INC = 0.01
        kernel.reverse()
        port_list = self._machine_model.get_ports()
        multiple_assignments = False
        for idx, instruction_form in enumerate(kernel[start:], start):
            multiple_assignments = False
            if isinstance(instruction_form.port_uops, dict):
                best_kernel = None
                best_kernel_tp = sys.maxsize
                for port_util_alt in list(instruction_form.port_uops.values())[1:]:
                    k_tmp = deepcopy(kernel)
                    k_tmp[idx].port_uops = deepcopy(port_util_alt)
                    k_tmp[idx].port_pressure = self._machine_model.average_port_pressure(k_tmp[idx].port_uops)
                    k_tmp.reverse()
                    self.assign_optimal_throughput(k_tmp, idx)
                    if max(self.get_throughput_sum(k_tmp)) < best_kernel_tp:
                        best_kernel = k_tmp
                        best_kernel_tp = max(self.get_throughput_sum(best_kernel))
                multiple_assignments = True
                kernel[idx].port_uops = list(instruction_form.port_uops.values())[0]
            # per-uop share of each port; survives between calls so that a later pass never
            # moves more cycles off a port than this uop still has there
            shares = getattr(instruction_form, "_uop_port_shares", None)
            if shares is None or shares[0] is not instruction_form.port_uops:
                shares = (instruction_form.port_uops,
                          [{port_list.index(p): uop[0] / len(list(uop[1])) for p in uop[1]} for uop in instruction_form.port_uops])
                instruction_form._uop_port_shares = shares
            for uop, share in zip(instruction_form.port_uops, shares[1]):
                cycles = uop[0]
                active = list(share.keys())
                for _ in range(int(cycles * (1 / INC))):
                    if len(active) < 2:
                        break
                    tp_sum = self.get_throughput_sum(kernel)
                    port_sums = [tp_sum[i] for i in active]
                    if len(set(port_sums)) <= 1:
                        break
                    max_port = active[port_sums.index(max(port_sums))]
                    min_port = active[port_sums.index(min(port_sums))]
                    step = min(INC, share[max_port])
                    share[max_port] -= step
                    share[min_port] += step
                    instruction_form.port_pressure[max_port] -= step
                    instruction_form.port_pressure[min_port] += step
                    if round(share[max_port], 2) <= 0:
                        # give the residual to the receiving port and stop taking from this one
                        share[min_port] += share[max_port]
                        instruction_form.port_pressure[min_port] += share[max_port]
                        instruction_form.port_pressure[max_port] -= share[max_port]
                        share[max_port] = 0.0
                        active.remove(max_port)
        kernel.reverse()
        if multiple_assignments:
            if max(self.get_throughput_sum(kernel)) > best_kernel_tp:
                for i, instr in enumerate(best_kernel):
                    kernel[i].port_uops = best_kernel[i].port_uops
                    kernel[i].port_pressure = best_kernel[i].port_pressure
                    if hasattr(best_kernel[i], "_uop_port_shares"): kernel[i]._uop_port_shares = best_kernel[i]._uop_port_shares
