import io, re, sys
import osaca.osaca as oc
from ruamel.yaml import YAML
def run(path, *extra):
    p = oc.create_parser(); yo='/tmp/scratch/out.yml'
    args = p.parse_args([*extra, '--yaml-out', yo, path]); oc.check_arguments(args,p)
    out = io.StringIO(); oc.run(args, output_file=out); args.yaml_out.close()
    return out.getvalue()
def parse(rep):
    lines = rep.split("\n")
    hi = next(i for i,l in enumerate(lines) if re.match(r"^\s+\|.*\|\|?\s*CP\s*\|\s*LCD\s*\|$", l))
    hdr = lines[hi]
    # column spans: separators in header are '|' or '-' located between port names
    seps = [m.start() for m in re.finditer(r"[|]| - ", hdr)]
    # robust: find port names and their spans
    cols=[]; 
    for m in re.finditer(r"\S+", hdr.replace("|"," ").replace(" - ","   ")):
        cols.append((m.group(), m.start(), m.end()))
    ports=[c for c in cols if c[0] not in ('CP','LCD')]
    # boundaries: each cell spans from previous separator+1 to next separator
    sep_pos=[i for i,ch in enumerate(hdr) if ch=='|' or (ch=='-' and hdr[i-1]==' ' and hdr[i+1]==' ')]
    rows=[]
    for l in lines[hi+2:]:
        m = re.match(r"^\s*(\d+) \|", l)
        if not m:
            if rows and l.strip()=="" : break
            continue
        cells=[]
        for a,b in zip(sep_pos[:-1], sep_pos[1:]):
            cells.append(l[a+1:b].strip())
        rows.append((int(m.group(1)), cells, l[sep_pos[-1]+1:]))
    summ = next((l for l in lines[hi+2:] if re.match(r"^\s{5,}[\d.]", l)), None)
    return [p[0] for p in ports], sep_pos, rows, summ
f = sys.argv[1]; arch=sys.argv[2]
rep = run(f,'--arch',arch)
ports, sp, rows, summ = parse(rep)
print(ports); 
for r in rows[:4]: print(r)
print(summ)
d = YAML(typ='unsafe', pure=True).load(open('/tmp/scratch/out.yml'))
print(d['Summary'], [ (k['LineNumber'], k['PortPressure']) for k in d['Kernel'][:2]])
