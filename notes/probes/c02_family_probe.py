import sys, time, itertools, os, tempfile
from multiprocessing import Pool
from osaca.semantics import MachineModel, ArchSemantics
from osaca.parser import ParserX86ATT
ports = ['A','B','C']
subsets = [s for r in (1,2,3) for s in itertools.combinations(ports, r)]
forms = [("f%d"%i, [[1, list(s)]]) for i,s in enumerate(subsets)] + [("g%d"%i, [[2, list(s)]]) for i,s in enumerate(subsets)]
F=dict(forms)
def setup():
    global sem, parser
    d = tempfile.mkdtemp(dir='/tmp/scratch')
    y = "osaca_version: 0.3.4\nmicro_architecture: synth\narch_code: SYN\nisa: x86\nload_latency: {gpr: 4.0}\nload_throughput: []\nload_throughput_default: []\nstore_throughput: []\nstore_throughput_default: []\nhidden_loads: false\nports: %r\ninstruction_forms:\n" % ports
    for n,pp in forms: y += "- name: %s\n  operands: []\n  throughput: 1.0\n  latency: 1.0\n  port_pressure: %r\n" % (n, pp)
    open(d+'/syn.yml','w').write(y); open(d+'/isa.yml','w').write("osaca_version: 0.3.4\nisa: x86\ninstruction_forms: []\n")
    sem = ArchSemantics(MachineModel(path_to_yaml=d+'/syn.yml'), path_to_yaml=d+'/isa.yml'); parser = ParserX86ATT()
def opt(k):
    tot={}
    for n in k:
        c,pl=F[n][0]; tot[frozenset(pl)]=tot.get(frozenset(pl),0)+c
    return max(sum(v for s,v in tot.items() if s<=set(S))/len(S) for r in (1,2,3) for S in itertools.combinations(ports,r))
def work(k):
    kern = parser.parse_file("\n".join(k)+"\n"); sem.add_semantics(kern)
    out=[max(sem.get_throughput_sum(kern))]
    for _ in range(3):
        sem.assign_optimal_throughput(kern); out.append(max(sem.get_throughput_sum(kern)))
    return k, out, opt(k)
def kernels():
    n1=[f[0] for f in forms[:7]]; n2=[f[0] for f in forms]
    for L in range(1,5):
        for k in itertools.product(n1, repeat=L): yield k
    for L in range(1,4):
        for k in itertools.product(n2, repeat=L):
            if any(x.startswith('g') for x in k): yield k
if __name__=='__main__':
    with Pool(16, initializer=setup) as p:
        res = p.map(work, list(kernels()), chunksize=50)
    for stage in (1,2,3):
        gaps=[(o[stage]-e, k) for k,o,e in res]
        print("pass",stage,"max gap over optimum", max(gaps), "min", min(gaps)[0], "n>0.15:", sum(g>0.15 for g,_ in gaps), "worse than previous:", sum(o[stage]>o[stage-1]+1e-9 for k,o,e in res))
