import os, tempfile, time, itertools, sys
from multiprocessing import Pool
from osaca.semantics import MachineModel, ArchSemantics, KernelDG
from osaca.parser import ParserX86ATT
ROLES='sdb'
FAM={'rax':'A','eax':'A','rbx':'B'}
LAT={}
def build():
    d = tempfile.mkdtemp(dir='/tmp/scratch')
    rl = {'s':'source: true\n    destination: false','d':'source: false\n    destination: true','b':'source: true\n    destination: true'}
    isa = "osaca_version: 0.3.4\nisa: x86\ninstruction_forms:\n"
    arch = "osaca_version: 0.3.4\nmicro_architecture: synth\narch_code: SYN\nisa: x86\nload_latency: {gpr: 4.0}\nload_throughput: []\nload_throughput_default: [[1, ['A']]]\nstore_throughput: []\nstore_throughput_default: [[1, ['B']]]\nstore_to_load_forward_latency: 2.0\nhidden_loads: false\nports: ['A','B']\ninstruction_forms:\n"
    lat=1
    for r1 in ROLES:
        for r2 in ROLES:
            n="op%s%s"%(r1,r2); lat+=1; LAT[n]=float(lat)
            isa += "- name: %s\n  operands:\n  - class: register\n    name: gpr\n    %s\n  - class: register\n    name: gpr\n    %s\n"%(n,rl[r1],rl[r2])
            if n=='opsd': isa += "  hidden_operands:\n  - class: flag\n    name: ZF\n    source: false\n    destination: true\n"
            if n=='opss': isa += "  hidden_operands:\n  - class: flag\n    name: ZF\n    source: true\n    destination: false\n"
            arch += "- name: %s\n  operands:\n  - class: register\n    name: gpr\n  - class: register\n    name: gpr\n  throughput: 1.0\n  latency: %d.0\n  port_pressure: [[1, ['A','B']]]\n"%(n,lat)
    # mnemonic without isa entry -> default roles (x86: last is dest)
    arch += "- name: nodb\n  operands:\n  - class: register\n    name: gpr\n  - class: register\n    name: gpr\n  throughput: 1.0\n  latency: 20.0\n  port_pressure: [[1, ['A']]]\n"; LAT['nodb']=20.0
    open(d+'/isa.yml','w').write(isa); open(d+'/syn.yml','w').write(arch)
    return d
# reference
def rw(ins):
    m,a,b = ins
    reads=set(); writes=set()
    roles = {'nodb':'sd'}.get(m, m[2:])
    for r,reg in zip(roles,(a,b)):
        if r in 'sb': reads.add(FAM[reg])
        if r in 'db': writes.add(FAM[reg])
    if m=='opsd': writes.add('ZF')
    if m=='opss': reads.add('ZF')
    return reads, writes
def ref_edges(seq, flags=True):
    E={}
    n=len(seq)
    for i in range(n):
        _,wi = rw(seq[i])
        for res in wi:
            if res=='ZF' and not flags: continue
            for j in range(i+1,n):
                rj,wj = rw(seq[j])
                if res in rj: E[(i,j)] = LAT[seq[i][0]]
                if res in wj: break
    return E
def ref_lcd(k, flags=True):
    n=len(k); E=ref_edges(list(k)+list(k), flags)
    intra={(i,j):w for (i,j),w in E.items() if j<n}; cross={(i,j-n):w for (i,j),w in E.items() if i<n and j>=n}
    out=set()
    # cycles: root r, path r -> ... (intra edges ascending) -> u, cross u->v (v<=r... ) then intra v->...->r
    def paths(src, dst, edges):
        if src==dst: yield [src]; return
        for (a,b),w in edges.items():
            if a==src and b<=dst:
                for p in paths(b,dst,edges): yield [src]+p
    for (u,v),w in cross.items():
        # cycle = intra path v -> u (v<=u) plus cross edge u->v
        if v<=u:
            for p in paths(v,u,intra):
                lat = sum(intra[(a,b)] for a,b in zip(p,p[1:])) + w
                out.add((tuple(sorted(p)), lat))
    return out
def setup():
    global sem, mm, px
    d=build(); mm=MachineModel(path_to_yaml=d+'/syn.yml'); sem=ArchSemantics(mm, path_to_yaml=d+'/isa.yml'); px=ParserX86ATT()
def work(k):
    text="\n".join("%s %%%s, %%%s"%i for i in k)+"\n"
    kern=px.parse_file(text); sem.add_semantics(kern)
    bad=[]
    for flags in (True,False):
        g=KernelDG(kern,px,mm,sem,timeout=-1,flag_dependencies=flags)
        got={(int(a)-1,int(b)-1):d['latency'] for a,b,d in g.dg.edges(data=True)}
        exp=ref_edges(k,flags)
        if got!=exp: bad.append(('edges',flags,text,got,exp))
        gl={(tuple(sorted(x.line_number-1 for x,_ in v['dependencies'])), v['latency']) for v in g.loopcarried_deps.values()}
        el=ref_lcd(k,flags)
        if gl!=el: bad.append(('lcd',flags,text,sorted(gl),sorted(el)))
    return bad
if __name__=='__main__':
    build()
    ms=['op%s%s'%(a,b) for a in ROLES for b in ROLES]+['nodb']; regs=['rax','eax','rbx']
    instrs=[(m,a,b) for m in ms for a in regs for b in regs]
    ks=[(i,) for i in instrs]+list(itertools.product(instrs,repeat=2))
    red=[(m,a,b) for m in ('opsd','opbs','opss','opdb','nodb') for a in regs for b in ('rax','rbx')]
    ks+=list(itertools.product(red,repeat=3))
    t=time.time()
    with Pool(16, initializer=setup) as p: res=p.map(work, ks, chunksize=100)
    bad=[b for r in res for b in r]
    print("kernels",len(ks),"mismatches",len(bad),"%.1fs"%(time.time()-t))
    for b in bad[:8]: print(b)
