import glob, os, networkx as nx
from osaca.semantics import MachineModel, ArchSemantics, KernelDG, reduce_to_section, INSTR_FLAGS
from osaca.parser import ParserX86ATT, ParserAArch64
def ref_cp(g, kernel):
    by = {i.line_number: i for i in kernel}
    has_load_node = {n for n in g.nodes if int(n)!=n}
    def exec_lat(i): return i.latency_wo_load if (i.line_number+0.1) in g.nodes else i.latency
    order = sorted(g.nodes)  # edges always forward in (line, .1 before line?) -> load node x.1 > x numerically! handle via topo sort
    order = list(nx.topological_sort(g))
    dist = {n:0.0 for n in order}; via_load = {n:False for n in order}
    for n in order:
        for _,m,d in g.out_edges(n, data=True):
            if dist[n]+d['latency'] > dist[m]: dist[m]=dist[n]+d['latency']
    L_exec = max(dist[n]+exec_lat(by[n]) for n in order if int(n)==n)
    # L_full: last contributes full latency unless entered via its own load node on the maximal path -> upper bound: dist_nonload + latency
    dist2 = {n:0.0 for n in order}
    L_full = 0
    for n in order:
        if int(n)!=n: continue
    # distance to n not using its own load node
    for n in [x for x in order if int(x)==x]:
        best = 0.0
        for p,_,d in g.in_edges(n, data=True):
            if p == n+0.1: continue
            best = max(best, dist[p]+d['latency'])
        L_full = max(L_full, best + by[n].latency, dist[n]+exec_lat(by[n]))
    return L_exec, L_full
cases = [('x86','zen2',ParserX86ATT(), f) for f in sorted(glob.glob('/repo/examples/*/*.zen.gcc.s'))+['/repo/tests/test_files/kernel_x86.s','/repo/tests/test_files/kernel_x86_memdep.s']] + \
        [('aarch64','tx2',ParserAArch64(), f) for f in sorted(glob.glob('/repo/examples/*/*.tx2.gcc.s'))+['/repo/tests/test_files/kernel_aarch64.s','/repo/tests/test_files/kernel_aarch64_memdep.s']]
for isa, arch, p, f in cases:
    mm = MachineModel(arch=arch); sem = ArchSemantics(mm)
    kern = reduce_to_section(p.parse_file(open(f).read()), isa); sem.add_semantics(kern)
    g = KernelDG(kern, p, mm, sem, timeout=-1)
    cp = g.get_critical_path(); rep = sum(x.latency_cp for x in cp)
    lo, hi = ref_cp(g.dg, kern)
    print("%-28s reported %5.1f  L_exec %5.1f  L_full %5.1f  %s"%(os.path.basename(f), rep, lo, hi, "OK" if lo-1e-9<=rep<=hi+1e-9 else "VIOLATION"))
