import sys, itertools, tempfile
from multiprocessing import Pool
from osaca.semantics import MachineModel, ArchSemantics
from osaca.parser import ParserX86ATT
from fixproto import FixedSem
ports = ['A','B','C']
subsets = [s for r in (1,2,3) for s in itertools.combinations(ports, r)]
uops = [[c,list(s)] for c in (1,2) for s in subsets]
forms = {}
i=0
for u in uops: forms["f%d"%i]=[u]; i+=1
for u1,u2 in itertools.combinations_with_replacement(uops[:7],2): forms["f%d"%i]=[u1,u2]; i+=1
Sem = FixedSem if sys.argv[1]=='fix' else ArchSemantics
def setup():
    global sem, parser
    d = tempfile.mkdtemp(dir='/tmp/scratch')
    y = "osaca_version: 0.3.4\nmicro_architecture: synth\narch_code: SYN\nisa: x86\nload_latency: {gpr: 4.0}\nload_throughput: []\nload_throughput_default: []\nstore_throughput: []\nstore_throughput_default: []\nhidden_loads: false\nports: %r\ninstruction_forms:\n" % ports
    for n,pp in forms.items(): y += "- name: %s\n  operands: []\n  throughput: 1.0\n  latency: 1.0\n  port_pressure: %r\n" % (n, pp)
    open(d+'/syn.yml','w').write(y); open(d+'/isa.yml','w').write("osaca_version: 0.3.4\nisa: x86\ninstruction_forms: []\n")
    sem = Sem(MachineModel(path_to_yaml=d+'/syn.yml'), path_to_yaml=d+'/isa.yml'); parser = ParserX86ATT()
def hall(pp, uo):
    worst=0
    tot=sum(c for c,_ in uo); worst=max(worst, abs(sum(pp)-tot))
    for r in (1,2,3):
        for S in itertools.combinations(range(3),r):
            conf=sum(c for c,pl in uo if set(pl)<={ports[j] for j in S})
            worst=max(worst, conf-sum(pp[j] for j in S))
    worst=max(worst, -min(pp))
    return worst
def opt(k):
    best=0
    for r in (1,2,3):
        for S in itertools.combinations(ports,r):
            c=sum(cc for n in k for cc,pl in forms[n] if set(pl)<=set(S)); best=max(best,c/len(S))
    return best
def work(k):
    kern = parser.parse_file("\n".join(k)+"\n"); sem.add_semantics(kern)
    tps=[max(sem.get_throughput_sum(kern))]; h=[max(hall(i.port_pressure, forms[n]) for i,n in zip(kern,k))]
    for _ in range(2):
        sem.assign_optimal_throughput(kern); tps.append(max(sem.get_throughput_sum(kern))); h.append(max(hall(i.port_pressure, forms[n]) for i,n in zip(kern,k)))
    return k,tps,h,opt(k)
if __name__=='__main__':
    names=list(forms)
    ks=[k for L in (1,2) for k in itertools.product(names, repeat=L)]
    if len(sys.argv)>2: ks += list(itertools.product(names[:14]+names[14:42:3], repeat=3))
    with Pool(16, initializer=setup) as p: res=p.map(work, ks, chunksize=40)
    print(sys.argv[1], "kernels", len(res))
    for st in (0,1,2):
        print(" stage",st,"max hall/sum/neg deviation %.4f"%max(r[2][st] for r in res), "| max gap over OPT %.3f"%max(r[1][st]-r[3] for r in res), "min %.3f"%min(r[1][st]-r[3] for r in res), "| worse than uniform:", sum(r[1][st]>r[1][0]+1e-9 for r in res))
