#!/venv/bin/python
"""MANIFEST.setup_cmd: verify that everything the checks import is present; create output dirs."""
import os
import sys

HERE = os.path.dirname(os.path.abspath(__file__))
sys.path.insert(0, HERE)
os.makedirs(os.path.join(HERE, "evidence"), exist_ok=True)
os.makedirs(os.path.join(HERE, "replays"), exist_ok=True)
import networkx  # noqa
import pyparsing  # noqa
import ruamel.yaml  # noqa
import osaca  # noqa
from mc import core, synth  # noqa
print("setup ok: osaca %s from %s" % (osaca.__version__, os.path.dirname(osaca.__file__)))
