#!/opt/veriftools/pyvenv/bin/python
"""Validate MANIFEST.json and evidence files against the schemas (tooling venv has jsonschema)."""
import glob, json, sys
import jsonschema
ok = True
man = json.load(open('/verif/MANIFEST.json'))
try:
    jsonschema.validate(man, json.load(open('/root/.vp/MANIFEST.schema.json')))
    print("MANIFEST ok")
except Exception as e:
    ok = False; print("MANIFEST INVALID", e)
sch = json.load(open('/root/.vp/EVIDENCE.schema.json'))
for f in sorted(glob.glob('/verif/evidence/*.json')):
    try:
        jsonschema.validate(json.load(open(f)), sch); print("ok", f)
    except Exception as e:
        ok = False; print("INVALID", f, str(e)[:300])
sys.exit(0 if ok else 1)
